"""
Semantics-preserving normalisation of the parsed program, applied before indexing.

One pattern only -- the *bulk helper*:

    def _release_children(self, children):        # a private method whose whole body is one loop over its
        for child in children:                    # only parameter, with no break / continue / return / yield
            BODY

is read as

    def _release_children(self, children):
        for child in children:
            self._release_children__each(child)

    def _release_children__each(self, child):
        BODY

and, inside the same class, a call statement that hands it a one-element display or a (lazily consumed) generator
expression is read as the loop it is:

    self._release_children((child,))                          ->   self._release_children__each(child)
    self._release_children(c for c in src if cond)            ->   for c in src:
                                                                       if cond:
                                                                           self._release_children__each(c)

Both readings execute the same statements in the same order on the same objects (a generator handed to a function whose
body is exactly `for x in arg: ...` is advanced once per iteration, its filter evaluated right before the body), so the
rules, which are written for the per-element helper, decide the same behaviour.  New nodes carry the positions of the
nodes they come from, so reports still point into the file.
"""

import ast
import copy

SUFFIX = "__each"


def _no_escape(body):
    """no break / continue / return / yield that would leave the loop body (nested loops may break for themselves)"""

    def walk(stmts, in_loop):
        for st in stmts:
            for n in ast.iter_child_nodes(st):
                pass
            if isinstance(st, (ast.Return,)):
                return False
            if isinstance(st, (ast.Break, ast.Continue)) and not in_loop:
                return False
            if isinstance(st, (ast.FunctionDef, ast.AsyncFunctionDef, ast.ClassDef)):
                continue
            for x in ast.walk(st) if not isinstance(st, (ast.For, ast.While, ast.If, ast.With, ast.Try)) else []:
                if isinstance(x, (ast.Yield, ast.YieldFrom, ast.Await)):
                    return False
            for field in ("body", "orelse", "finalbody"):
                sub = getattr(st, field, None)
                if isinstance(sub, list) and sub and isinstance(sub[0], ast.stmt):
                    if not walk(sub, in_loop or isinstance(st, (ast.For, ast.While))):
                        return False
            for h in getattr(st, "handlers", []) or []:
                if not walk(h.body, in_loop):
                    return False
        return True

    if any(isinstance(x, (ast.Yield, ast.YieldFrom, ast.Await)) for st in body for x in ast.walk(st)):
        return False
    return walk(body, False)


def _bulk_helper(fn):
    """(loop, parameter name) when fn is a bulk helper, else None"""
    if not isinstance(fn, ast.FunctionDef) or not fn.name.startswith("_") or fn.name.startswith("__") or fn.decorator_list:
        return None
    a = fn.args
    if a.vararg or a.kwarg or a.kwonlyargs or a.posonlyargs or a.defaults or len(a.args) != 2 or a.args[0].arg != "self":
        return None
    body = list(fn.body)
    if body and isinstance(body[0], ast.Expr) and isinstance(body[0].value, ast.Constant) and isinstance(body[0].value.value, str):
        body = body[1:]
    if len(body) != 1 or not isinstance(body[0], ast.For) or body[0].orelse:
        return None
    loop = body[0]
    p = a.args[1].arg
    if not (isinstance(loop.iter, ast.Name) and loop.iter.id == p) or not isinstance(loop.target, ast.Name):
        return None
    if any(isinstance(n, ast.Name) and n.id == p for st in loop.body for n in ast.walk(st)):
        return None
    if loop.target.id in ("self", p) or not _no_escape(loop.body):
        return None
    # the loop variable is not rebound in the body (the per-element function gets it as its parameter)
    if any(isinstance(n, ast.Name) and n.id == loop.target.id and isinstance(n.ctx, (ast.Store, ast.Del)) for st in loop.body for n in ast.walk(st)):
        return None
    return loop, p


def _each_call(at, name, arg):
    call = ast.Call(func=ast.Attribute(value=ast.Name(id="self", ctx=ast.Load()), attr=name + SUFFIX, ctx=ast.Load()), args=[arg], keywords=[])
    st = ast.Expr(value=call)
    for n in ast.walk(st):
        ast.copy_location(n, at)
    return st


def normalise_class(cls_node):
    """rewrite the bulk helpers of one class in place; returns the names of the helpers that were split"""
    helpers = {}
    for st in cls_node.body:
        found = _bulk_helper(st) if isinstance(st, ast.FunctionDef) else None
        if found and not any(isinstance(o, ast.FunctionDef) and o.name == st.name + SUFFIX for o in cls_node.body):
            helpers[st.name] = (st, found[0], found[1])
    if not helpers:
        return []
    # the helper must only ever be CALLED (a reference handed around could be called with anything)
    for name in list(helpers):
        for n in ast.walk(cls_node):
            if isinstance(n, ast.Attribute) and n.attr == name:
                pass
        calls = {id(n.func) for n in ast.walk(cls_node) if isinstance(n, ast.Call) and isinstance(n.func, ast.Attribute) and n.func.attr == name}
        refs = [n for n in ast.walk(cls_node) if isinstance(n, ast.Attribute) and n.attr == name and id(n) not in calls]
        if refs:
            del helpers[name]
    new_defs = []
    for name, (fn, loop, _p) in helpers.items():
        each = ast.FunctionDef(
            name=name + SUFFIX,
            args=ast.arguments(posonlyargs=[], args=[ast.arg(arg="self"), ast.arg(arg=loop.target.id)], vararg=None, kwonlyargs=[], kw_defaults=[], kwarg=None, defaults=[]),
            body=loop.body,
            decorator_list=[],
            returns=None,
            type_comment=None,
        )
        if hasattr(each, "type_params"):
            each.type_params = []
        ast.copy_location(each, loop)
        for a in each.args.args:
            ast.copy_location(a, loop)
        loop.body = [_each_call(loop, name, ast.copy_location(ast.Name(id=loop.target.id, ctx=ast.Load()), loop))]
        new_defs.append((fn, each))
    for fn, each in new_defs:
        cls_node.body.insert(cls_node.body.index(fn) + 1, each)

    # call statements inside the class
    class Sites(ast.NodeTransformer):
        def visit_Expr(self, st):
            c = st.value
            if not (isinstance(c, ast.Call) and isinstance(c.func, ast.Attribute) and c.func.attr in helpers and isinstance(c.func.value, ast.Name) and c.func.value.id == "self" and len(c.args) == 1 and not c.keywords):
                return st
            name = c.func.attr
            arg = c.args[0]
            if isinstance(arg, (ast.Tuple, ast.List)) and len(arg.elts) == 1 and not isinstance(arg.elts[0], ast.Starred):
                return _each_call(st, name, arg.elts[0])
            if isinstance(arg, ast.GeneratorExp) and not any(g.is_async for g in arg.generators):
                inner = [_each_call(st, name, arg.elt)]
                for g in reversed(arg.generators):
                    for cond in reversed(g.ifs):
                        inner = [ast.copy_location(ast.If(test=cond, body=inner, orelse=[]), st)]
                    inner = [ast.copy_location(ast.For(target=copy.deepcopy(g.target), iter=g.iter, body=inner, orelse=[], type_comment=None), st)]
                    for n in ast.walk(inner[0].target):
                        if isinstance(n, (ast.Name, ast.Tuple, ast.List, ast.Starred)):
                            n.ctx = ast.Store()
                return inner[0]
            return st

    for st in cls_node.body:
        if isinstance(st, (ast.FunctionDef, ast.AsyncFunctionDef)) and not st.name.endswith(SUFFIX):
            # the generator's variables become locals of the enclosing function: only when nothing else there has their name
            gen_names = {
                n.id
                for c in ast.walk(st)
                if isinstance(c, ast.Call) and isinstance(c.func, ast.Attribute) and c.func.attr in helpers and len(c.args) == 1 and isinstance(c.args[0], ast.GeneratorExp)
                for g in c.args[0].generators
                for n in ast.walk(g.target)
                if isinstance(n, ast.Name)
            }
            inside = {id(n) for c in ast.walk(st) if isinstance(c, ast.GeneratorExp) for n in ast.walk(c)}
            clash = any(isinstance(n, ast.Name) and n.id in gen_names and id(n) not in inside for n in ast.walk(st)) or any(a.arg in gen_names for a in ast.walk(st) if isinstance(a, ast.arg))
            if not clash:
                Sites().visit(st)
    return sorted(helpers)


def normalise_module(tree):
    done = ["record " + r for r in denormalise_records(tree)] + denormalise_enums(tree)
    k = strip_casts(tree)
    if k:
        done.append("%d typing.cast" % k)
    k = resugar_async(tree)
    if k:
        done.append("%d explicit async protocol forms" % k)
    k = detabulate(tree)
    if k:
        done.append("%d table-driven forms" % k)
        for _again in range(3):  # a cell that is itself a lambda calling a table driver
            defunctionalise(tree)
            if not detabulate(tree):
                break
    k = defunctionalise(tree) + more_spellings(tree)
    if k:
        done.append("%d functional forms" % k)
        defunctionalise(tree)  # (loops over the generator expressions that fusion produced)
    k = normalise_while_true(tree)
    if k:
        done.append("%d while-True loops" % k)
    for n in ast.walk(tree):
        if isinstance(n, ast.ClassDef):
            done += ["%s.%s" % (n.name, h) for h in normalise_class(n)]
    if done:
        ast.fix_missing_locations(tree)
    return done


# ---------------------------------------------------------------------------------------------------------------------
# Records: state gathered into one private NamedTuple / dataclass attribute is read as the attributes it replaced
#
#     class _Access(NamedTuple): token: ... = None; channel: ... = None
#     self._access = _Access()                              ->   self._trio_token = None; self._submit_tasks = None
#     self._access = self._access._replace(token=t)         ->   self._trio_token = t
#     self._link.token = t          (dataclass)             ->   self._trio_token = t
#     self._access.token  /  link = self._link; link.token  ->   self._trio_token
#     token, channel = self._access                         ->   token, channel = self._trio_token, self._submit_tasks
#     @property def _trio_token(self): return self._access.token      (dropped: it is the plain attribute again)
#
# A field the class publishes as the property `p: return self.<rec>.<field>` becomes the attribute p, any other field
# the attribute <rec>__<field>.  Applied only when EVERY use of self.<rec> in the module has one of the shapes above;
# the record object itself (its identity, one-snapshot reads) is not something any rule talks about.


def _record_classes(tree):
    out = {}
    for st in tree.body:
        if not isinstance(st, ast.ClassDef):
            continue
        named = any((isinstance(b, ast.Name) and b.id == "NamedTuple") or (isinstance(b, ast.Attribute) and b.attr == "NamedTuple") for b in st.bases)
        data = False
        for d in st.decorator_list:
            f = d.func if isinstance(d, ast.Call) else d
            if (isinstance(f, ast.Name) and f.id == "dataclass") or (isinstance(f, ast.Attribute) and f.attr == "dataclass"):
                data = True
        if not (named or data):
            # a tiny holder class: only __slots__ and an __init__(self) that sets each field to a constant
            if st.bases or st.decorator_list or not st.name.startswith("_"):
                continue
            init = None
            plain = True
            for b in st.body:
                if isinstance(b, ast.FunctionDef) and b.name == "__init__":
                    init = b
                elif isinstance(b, ast.Assign) and len(b.targets) == 1 and isinstance(b.targets[0], ast.Name) and b.targets[0].id == "__slots__":
                    continue
                elif isinstance(b, ast.Expr) and isinstance(b.value, ast.Constant):
                    continue
                else:
                    plain = False
            a = init.args if init is not None else None
            if not plain or init is None or len(a.args) != 1 or a.vararg or a.kwarg or a.kwonlyargs:
                continue
            flds = []
            for b in init.body:
                tg = b.targets[0] if isinstance(b, ast.Assign) and len(b.targets) == 1 else b.target if isinstance(b, ast.AnnAssign) else None
                v = getattr(b, "value", None)
                if tg is not None and _is_self_attr(tg) and isinstance(v, ast.Constant):
                    flds.append((tg.attr, v))
                elif isinstance(b, ast.Expr) and isinstance(b.value, ast.Constant):
                    continue
                else:
                    flds = None
                    break
            if flds:
                out[st.name] = {"fields": flds, "named": False}
            continue
        fields = []
        ok = True
        for b in st.body:
            if isinstance(b, ast.AnnAssign) and isinstance(b.target, ast.Name):
                if b.value is not None and not isinstance(b.value, ast.Constant):
                    ok = False
                fields.append((b.target.id, b.value))
            elif isinstance(b, ast.Expr) and isinstance(b.value, ast.Constant):
                continue
            elif isinstance(b, ast.Pass):
                continue
            else:
                ok = False  # methods, plain assignments: not a pure record
        if ok and fields:
            out[st.name] = {"fields": fields, "named": named}
    return out


def _is_self_attr(n, name=None):
    return isinstance(n, ast.Attribute) and isinstance(n.value, ast.Name) and n.value.id == "self" and (name is None or n.attr == name)


def _denormalise_class(cls_node, recs, tree):
    done = []
    # candidates: self.X = R(...)
    cands = {}
    for n in ast.walk(cls_node):
        if isinstance(n, ast.Assign) and len(n.targets) == 1 and _is_self_attr(n.targets[0]) and isinstance(n.value, ast.Call) and isinstance(n.value.func, ast.Name) and n.value.func.id in recs:
            cands.setdefault(n.targets[0].attr, set()).add(n.value.func.id)
    for X, rnames in cands.items():
        if len(rnames) != 1 or not X.startswith("_"):
            continue
        R = recs[next(iter(rnames))]
        fnames = [f for f, _d in R["fields"]]
        # nobody outside the class touches the record
        inside = {id(n) for n in ast.walk(cls_node)}
        if any(isinstance(n, ast.Attribute) and n.attr == X and id(n) not in inside for n in ast.walk(tree)):
            continue
        # views
        views, droppable = {}, []
        bail = False
        for st in cls_node.body:
            if not isinstance(st, ast.FunctionDef):
                continue
            decos = [d for d in st.decorator_list]
            body = [b for b in st.body if not (isinstance(b, ast.Expr) and isinstance(b.value, ast.Constant))]
            if any(isinstance(d, ast.Name) and d.id == "property" for d in decos) and len(body) == 1 and isinstance(body[0], ast.Return) and isinstance(body[0].value, ast.Attribute) and _is_self_attr(body[0].value.value, X) and body[0].value.attr in fnames:
                views.setdefault(body[0].value.attr, st.name)
                droppable.append(st)
            elif any(isinstance(d, ast.Attribute) and d.attr == "setter" for d in decos) and len(body) == 1 and len(st.args.args) == 2:
                v = st.args.args[1].arg
                b = body[0]
                f = None
                if isinstance(b, ast.Assign) and len(b.targets) == 1 and _is_self_attr(b.targets[0], X) and isinstance(b.value, ast.Call) and isinstance(b.value.func, ast.Attribute) and b.value.func.attr == "_replace" and _is_self_attr(b.value.func.value, X) and len(b.value.keywords) == 1 and not b.value.args and isinstance(b.value.keywords[0].value, ast.Name) and b.value.keywords[0].value.id == v:
                    f = b.value.keywords[0].arg
                elif isinstance(b, ast.Assign) and len(b.targets) == 1 and isinstance(b.targets[0], ast.Attribute) and _is_self_attr(b.targets[0].value, X) and isinstance(b.value, ast.Name) and b.value.id == v:
                    f = b.targets[0].attr
                if f is not None and f in fnames:
                    droppable.append(st)
        # ... or as a class-level  p = property(lambda self: self.<rec>.<field>)
        for st in cls_node.body:
            if isinstance(st, ast.Assign) and len(st.targets) == 1 and isinstance(st.targets[0], ast.Name) and isinstance(st.value, ast.Call) and isinstance(st.value.func, ast.Name) and st.value.func.id == "property" and len(st.value.args) == 1 and not st.value.keywords and isinstance(st.value.args[0], ast.Lambda):
                lam = st.value.args[0]
                if len(lam.args.args) == 1 and isinstance(lam.body, ast.Attribute) and isinstance(lam.body.value, ast.Attribute) and isinstance(lam.body.value.value, ast.Name) and lam.body.value.value.id == lam.args.args[0].arg and lam.body.value.attr == X and lam.body.attr in fnames:
                    views.setdefault(lam.body.attr, st.targets[0].id)
                    droppable.append(st)
        name_of = {f: views.get(f, "%s__%s" % (X, f)) for f in fnames}
        # a view setter is only dropped together with the getter of the same name and field
        getter_names = set(views.values())
        droppable = [st for st in droppable if (st.name if isinstance(st, ast.FunctionDef) else st.targets[0].id) in getter_names]
        drop_ids = {id(n) for st in droppable for n in ast.walk(st)}
        # the new attribute names must be free
        taken = {n.attr for n in ast.walk(cls_node) if _is_self_attr(n) and isinstance(n.ctx, (ast.Store, ast.Del)) and id(n) not in drop_ids} | {st.name for st in cls_node.body if isinstance(st, (ast.FunctionDef, ast.AsyncFunctionDef)) and not any(st is d for d in droppable)}
        if any(nm in taken for nm in name_of.values()):
            continue
        # every use has a known shape
        plans = []  # (function, aliases)
        for fn in [st for st in cls_node.body if isinstance(st, (ast.FunctionDef, ast.AsyncFunctionDef)) and not any(st is d for d in droppable)]:
            par = {}
            for p in ast.walk(fn):
                for c in ast.iter_child_nodes(p):
                    par[id(c)] = p
            aliases = set()
            for n in ast.walk(fn):
                if isinstance(n, ast.Assign) and len(n.targets) == 1 and isinstance(n.targets[0], ast.Name) and _is_self_attr(n.value, X):
                    aliases.add(n.targets[0].id)
            for a in aliases:
                binds = [n for n in ast.walk(fn) if isinstance(n, ast.Name) and n.id == a and isinstance(n.ctx, (ast.Store, ast.Del))]
                if len(binds) != 1 or any(x.arg == a for x in ast.walk(fn) if isinstance(x, ast.arg)):
                    bail = True
            for n in ast.walk(fn):
                is_rec = _is_self_attr(n, X) or (isinstance(n, ast.Name) and n.id in aliases and isinstance(n.ctx, ast.Load))
                if not is_rec:
                    continue
                up = par.get(id(n))
                if isinstance(up, ast.Attribute) and up.value is n and up.attr in fnames:
                    continue  # self.X.f / alias.f  (load or store)
                if isinstance(up, ast.Attribute) and up.value is n and up.attr == "_replace":
                    call = par.get(id(up))
                    asg = par.get(id(call))
                    if isinstance(call, ast.Call) and call.func is up and not call.args and all(k.arg in fnames for k in call.keywords) and isinstance(asg, ast.Assign) and len(asg.targets) == 1 and _is_self_attr(asg.targets[0], X):
                        continue
                    bail = True
                    continue
                if isinstance(up, ast.Assign) and len(up.targets) == 1 and up.targets[0] is n:
                    v = up.value
                    if isinstance(v, ast.Call) and isinstance(v.func, ast.Name) and v.func.id in rnames and not any(isinstance(a, ast.Starred) for a in v.args) and all(k.arg in fnames for k in v.keywords) and len(v.args) <= len(fnames):
                        continue
                    if isinstance(v, ast.Call) and isinstance(v.func, ast.Attribute) and v.func.attr == "_replace" and _is_self_attr(v.func.value, X):
                        continue
                    bail = True
                    continue
                if isinstance(up, ast.Assign) and up.value is n and len(up.targets) == 1:
                    t = up.targets[0]
                    if isinstance(t, ast.Name) and t.id in aliases and _is_self_attr(n, X):
                        continue
                    if R["named"] and isinstance(t, (ast.Tuple, ast.List)) and len(t.elts) == len(fnames) and not any(isinstance(e, ast.Starred) for e in t.elts):
                        continue
                bail = True
            plans.append((fn, aliases))
        if bail:
            continue

        def field_ref(f, at, ctx):
            return ast.copy_location(ast.Attribute(value=ast.copy_location(ast.Name(id="self", ctx=ast.Load()), at), attr=name_of[f], ctx=ctx), at)

        class Rewrite(ast.NodeTransformer):
            def __init__(self, aliases, fn):
                self.aliases = aliases
                # `a, b = self.X` with a, b bound nowhere else in the function: a and b ARE the fields
                self.unpacked = {}
                for n in ast.walk(fn):
                    if isinstance(n, ast.Assign) and len(n.targets) == 1 and isinstance(n.targets[0], (ast.Tuple, ast.List)) and self.is_rec(n.value) and all(isinstance(e, ast.Name) for e in n.targets[0].elts):
                        names = [e.id for e in n.targets[0].elts]
                        once = all(len([x for x in ast.walk(fn) if isinstance(x, ast.Name) and x.id == nm and isinstance(x.ctx, (ast.Store, ast.Del))]) == 1 and not any(a.arg == nm for a in ast.walk(fn) if isinstance(a, ast.arg)) for nm in names)
                        if once and len(names) == len(fnames):
                            self.unpacked.update(dict(zip(names, fnames)))

            def is_rec(self, n):
                return _is_self_attr(n, X) or (isinstance(n, ast.Name) and n.id in self.aliases)

            def visit_Name(self, node):
                if isinstance(node.ctx, ast.Load) and node.id in self.unpacked:
                    return field_ref(self.unpacked[node.id], node, ast.Load())
                return node

            def visit_Attribute(self, node):
                if self.is_rec(node.value) and node.attr in fnames:
                    return field_ref(node.attr, node, node.ctx)
                return self.generic_visit(node)

            def visit_Assign(self, node):
                if len(node.targets) == 1 and _is_self_attr(node.targets[0], X):
                    v = node.value
                    pairs = []
                    if isinstance(v.func, ast.Name):  # R(a, b, f=c)
                        given = {}
                        order = []
                        for f, a in zip(fnames, v.args):
                            given[f] = a
                            order.append(f)
                        for k in v.keywords:
                            given[k.arg] = k.value
                            order.append(k.arg)
                        for f, d in R["fields"]:
                            if f not in given:
                                if d is None:
                                    return node  # (a missing argument: TypeError at run time; leave it)
                                given[f] = copy.deepcopy(d)
                                order.append(f)
                        pairs = [(f, self.visit(given[f])) for f in order]
                    else:  # self.X._replace(f=v)
                        pairs = [(k.arg, self.visit(k.value)) for k in v.keywords]
                    return [ast.copy_location(ast.Assign(targets=[field_ref(f, node, ast.Store())], value=val, type_comment=None), node) for f, val in pairs] or ast.copy_location(ast.Pass(), node)
                if len(node.targets) == 1 and isinstance(node.targets[0], ast.Name) and node.targets[0].id in self.aliases and _is_self_attr(node.value, X):
                    return ast.copy_location(ast.Pass(), node)
                if len(node.targets) == 1 and isinstance(node.targets[0], (ast.Tuple, ast.List)) and self.is_rec(node.value):
                    if all(isinstance(e, ast.Name) and e.id in self.unpacked for e in node.targets[0].elts):
                        return ast.copy_location(ast.Pass(), node)
                    node.value = ast.copy_location(ast.Tuple(elts=[field_ref(f, node, ast.Load()) for f in fnames], ctx=ast.Load()), node)
                    return node
                return self.generic_visit(node)

        for fn, aliases in plans:
            Rewrite(aliases, fn).visit(fn)
        cls_node.body = [st for st in cls_node.body if not any(st is d for d in droppable)]
        for st in cls_node.body:
            if isinstance(st, ast.Assign) and any(isinstance(t, ast.Name) and t.id == "__slots__" for t in st.targets) and isinstance(st.value, (ast.Tuple, ast.List)):
                elts = []
                for e in st.value.elts:
                    if isinstance(e, ast.Constant) and e.value == X:
                        elts.extend(ast.copy_location(ast.Constant(value=name_of[f]), e) for f in fnames)
                    else:
                        elts.append(e)
                st.value.elts = elts
        done.append("%s.%s" % (cls_node.name, X))
    return done


def denormalise_records(tree):
    recs = _record_classes(tree)
    if not recs:
        return []
    done = []
    for st in tree.body:
        if isinstance(st, ast.ClassDef) and st.name not in recs:
            done += _denormalise_class(st, recs, tree)
    if done:
        ast.fix_missing_locations(tree)
    return done


# ---------------------------------------------------------------------------------------------------------------------
# Value enums: a string / bool flag kept as a member of a private Enum is read as the value it stands for
#
#     class _Weight(enum.Enum): SUPPLY = "supply"; ...
#     self._weight = _Weight(weight)          ->   self._weight = weight        (the membership check stays the caller's)
#     self._weight.value                      ->   self._weight
#     self._weight is _Weight.SUPPLY  / ==    ->   self._weight == "supply"
#
# only when every use of the attribute and of the enum in the module has one of these shapes.


def _value_enums(tree):
    out = {}
    for st in tree.body:
        if isinstance(st, ast.ClassDef) and st.name.startswith("_") and any((isinstance(b, ast.Name) and b.id in ("Enum", "StrEnum")) or (isinstance(b, ast.Attribute) and b.attr in ("Enum", "StrEnum")) for b in st.bases):
            members = {}
            ok = True
            for b in st.body:
                if isinstance(b, ast.Assign) and len(b.targets) == 1 and isinstance(b.targets[0], ast.Name) and isinstance(b.value, ast.Constant):
                    members[b.targets[0].id] = b.value
                elif isinstance(b, ast.Expr) and isinstance(b.value, ast.Constant):
                    continue
                else:
                    ok = False
            if ok and members and len({repr(v.value) for v in members.values()}) == len(members):
                out[st.name] = members
    return out


def denormalise_enums(tree):
    enums = _value_enums(tree)
    done = []
    if not enums:
        return done
    par = {}
    for p in ast.walk(tree):
        for c in ast.iter_child_nodes(p):
            par[id(c)] = p

    def member_of(n, E):
        return isinstance(n, ast.Attribute) and isinstance(n.value, ast.Name) and n.value.id == E and n.attr in enums[E]

    for E, members in enums.items():
        # attributes holding a member:  self.X = E(expr)  /  self.X = E.MEMBER
        attrs = set()
        for n in ast.walk(tree):
            if isinstance(n, ast.Assign) and len(n.targets) == 1 and _is_self_attr(n.targets[0]):
                v = n.value
                if (isinstance(v, ast.Call) and isinstance(v.func, ast.Name) and v.func.id == E and len(v.args) == 1 and not v.keywords) or member_of(v, E):
                    attrs.add(n.targets[0].attr)
        if not attrs:
            continue
        ok = True
        for n in ast.walk(tree):
            if isinstance(n, ast.Name) and n.id == E:
                up = par.get(id(n))
                if isinstance(up, ast.ClassDef):
                    continue
                if isinstance(up, ast.Call) and up.func is n:
                    asg = par.get(id(up))
                    if isinstance(asg, ast.Assign) and len(asg.targets) == 1 and _is_self_attr(asg.targets[0]) and asg.targets[0].attr in attrs:
                        continue
                if member_of(up, E):
                    ctx = par.get(id(up))
                    if isinstance(ctx, ast.Compare) and len(ctx.ops) == 1 and isinstance(ctx.ops[0], (ast.Is, ast.IsNot, ast.Eq, ast.NotEq)) and any(_is_self_attr(x) and x.attr in attrs for x in [ctx.left] + ctx.comparators):
                        continue
                    if isinstance(ctx, ast.Assign) and ctx.value is up and len(ctx.targets) == 1 and _is_self_attr(ctx.targets[0]) and ctx.targets[0].attr in attrs:
                        continue
                ok = False
            if _is_self_attr(n) and n.attr in attrs:
                up = par.get(id(n))
                if isinstance(n.ctx, ast.Store):
                    v = getattr(up, "value", None)
                    if not (isinstance(up, ast.Assign) and ((isinstance(v, ast.Call) and isinstance(v.func, ast.Name) and v.func.id == E) or member_of(v, E))):
                        ok = False
                    continue
                if isinstance(up, ast.Attribute) and up.value is n and up.attr == "value":
                    continue
                if isinstance(up, ast.Compare) and len(up.ops) == 1 and isinstance(up.ops[0], (ast.Is, ast.IsNot, ast.Eq, ast.NotEq)):
                    other = [x for x in [up.left] + up.comparators if x is not n]
                    if len(other) == 1 and member_of(other[0], E):
                        continue
                ok = False
        if any(isinstance(n, ast.Attribute) and n.attr in attrs and not _is_self_attr(n) for n in ast.walk(tree)):
            ok = False  # somebody else's attribute of that name
        if not ok:
            continue
        # a two-state enum behind a bool property  p: return self.X is E.M   is the bool flag p
        flag = {}  # attr -> (property name, member that means True, property node, class node)
        if len(members) == 2:
            for cls_node in [c for c in ast.walk(tree) if isinstance(c, ast.ClassDef)]:
                for st in cls_node.body:
                    if isinstance(st, ast.FunctionDef) and any(isinstance(d, ast.Name) and d.id == "property" for d in st.decorator_list):
                        body = [b for b in st.body if not (isinstance(b, ast.Expr) and isinstance(b.value, ast.Constant))]
                        if len(body) == 1 and isinstance(body[0], ast.Return) and isinstance(body[0].value, ast.Compare) and len(body[0].value.ops) == 1 and isinstance(body[0].value.ops[0], (ast.Is, ast.Eq)):
                            c = body[0].value
                            if _is_self_attr(c.left) and c.left.attr in attrs and member_of(c.comparators[0], E):
                                only_member_stores = all(member_of(n.value, E) for n in ast.walk(tree) if isinstance(n, ast.Assign) and len(n.targets) == 1 and _is_self_attr(n.targets[0], c.left.attr))
                                taken = any(_is_self_attr(n, st.name) and isinstance(n.ctx, ast.Store) for n in ast.walk(cls_node))
                                if only_member_stores and not taken:
                                    flag[c.left.attr] = (st.name, c.comparators[0].attr, st, cls_node)

        def const(node, value):
            return ast.copy_location(ast.Constant(value=value), node)

        class Rewrite(ast.NodeTransformer):
            def visit_Assign(self, node):
                if len(node.targets) == 1 and _is_self_attr(node.targets[0]) and node.targets[0].attr in attrs:
                    X = node.targets[0].attr
                    v = node.value
                    if X in flag:
                        node.targets[0].attr = flag[X][0]
                        node.value = const(v, v.attr == flag[X][1])
                        return node
                    node.value = self.visit(v.args[0]) if isinstance(v, ast.Call) else const(v, members[v.attr].value)
                    return node
                return self.generic_visit(node)

            def visit_Attribute(self, node):
                if node.attr == "value" and _is_self_attr(node.value) and node.value.attr in attrs and node.value.attr not in flag:
                    return node.value
                return self.generic_visit(node)

            def visit_Compare(self, node):
                sides = [node.left] + node.comparators
                if len(node.ops) == 1 and any(_is_self_attr(x) and x.attr in attrs for x in sides) and any(member_of(x, E) for x in sides):
                    me = next(x for x in sides if _is_self_attr(x) and x.attr in attrs)
                    mem = next(x for x in sides if member_of(x, E))
                    positive = isinstance(node.ops[0], (ast.Is, ast.Eq))
                    if me.attr in flag:
                        ref = ast.copy_location(ast.Attribute(value=me.value, attr=flag[me.attr][0], ctx=ast.Load()), me)
                        same = (mem.attr == flag[me.attr][1]) == positive
                        return ref if same else ast.copy_location(ast.UnaryOp(op=ast.Not(), operand=ref), node)
                    return ast.copy_location(ast.Compare(left=me, ops=[ast.Eq() if positive else ast.NotEq()], comparators=[const(mem, members[mem.attr].value)]), node)
                return self.generic_visit(node)

        for X, (_p, _m, prop, cls_node) in flag.items():
            cls_node.body = [st for st in cls_node.body if st is not prop]
        Rewrite().visit(tree)
        done.append("enum %s" % E)
    if done:
        ast.fix_missing_locations(tree)
    return done


# ---------------------------------------------------------------------------------------------------------------------
# `while True:` with the exit test as its first statement is the loop with that test:
#
#     while True:                 ->   while C:
#         if not C: break                  BODY
#         BODY
#
# (no `else` clause on the loop; `continue` in BODY jumps to the test in both forms)


def _negate(e):
    if isinstance(e, ast.UnaryOp) and isinstance(e.op, ast.Not):
        return e.operand
    return ast.copy_location(ast.UnaryOp(op=ast.Not(), operand=e), e)


def normalise_while_true(tree):
    done = 0
    for n in ast.walk(tree):
        if isinstance(n, ast.While) and isinstance(n.test, ast.Constant) and n.test.value is True and not n.orelse and len(n.body) >= 2:
            first = n.body[0]
            if isinstance(first, ast.If) and not first.orelse and len(first.body) == 1 and isinstance(first.body[0], ast.Break):
                n.test = _negate(first.test)
                n.body = n.body[1:]
                done += 1
    if done:
        ast.fix_missing_locations(tree)
    return done


# ---------------------------------------------------------------------------------------------------------------------
# Optional collaborators (whole-package pass, after every module is parsed): a parameter with default None that NOTHING in
# the package supplies and that is only used to fall back to a default is read as that default:
#
#     def __init__(self, loop, stopped=None):                       def __init__(self, loop):
#         self._stopped = Event() if stopped is None else stopped  ->     self._stopped = Event()
#     def run(self, sleep=None): await (sleep or trio.sleep)(t)     ->   def run(self): await trio.sleep(t)
#     self._sleep = sleep ... (trio.sleep if self._sleep is None else self._sleep)(t)  ->  trio.sleep(t)
#     f = self._f;  if f is None: f = D                              ->   f = D
#
# "nothing supplies it": no call in the package has a keyword of that name, and no call to a function / class of that
# name passes enough positional arguments to reach it.


def _is_none_const(e):
    return isinstance(e, ast.Constant) and e.value is None


def _fallback_default(expr, same):
    """D when expr is  X if X is not None else D | D if X is None else X | X or D ; else None"""
    if isinstance(expr, ast.IfExp) and isinstance(expr.test, ast.Compare) and len(expr.test.ops) == 1 and same(expr.test.left) and _is_none_const(expr.test.comparators[0]):
        if isinstance(expr.test.ops[0], ast.IsNot) and same(expr.body):
            return expr.orelse
        if isinstance(expr.test.ops[0], ast.Is) and same(expr.orelse):
            return expr.body
    if isinstance(expr, ast.BoolOp) and isinstance(expr.op, ast.Or) and len(expr.values) == 2 and same(expr.values[0]):
        return expr.values[1]
    return None


def _rebind_if_none(stmt, name):
    """D when stmt is `if <name> is None: <name> = D`"""
    if isinstance(stmt, ast.If) and not stmt.orelse and len(stmt.body) == 1 and isinstance(stmt.test, ast.Compare) and len(stmt.test.ops) == 1 and isinstance(stmt.test.ops[0], ast.Is) and isinstance(stmt.test.left, ast.Name) and stmt.test.left.id == name and _is_none_const(stmt.test.comparators[0]):
        b = stmt.body[0]
        if isinstance(b, ast.Assign) and len(b.targets) == 1 and isinstance(b.targets[0], ast.Name) and b.targets[0].id == name:
            return b.value
    return None


class _Fallbacks(ast.NodeTransformer):
    """replace every fallback expression over `same` by its default; record loads of `same` that are anything else"""

    def __init__(self, same):
        self.same = same
        self.other = 0

    def generic_visit(self, node):
        d = _fallback_default(node, self.same) if isinstance(node, (ast.IfExp, ast.BoolOp)) else None
        if d is not None:
            return self.visit(d)
        if self.same(node) and isinstance(getattr(node, "ctx", None), ast.Load):
            self.other += 1
        return super().generic_visit(node)


def _rewrite_blocks(fn, name_of_local):
    """`x = <None>; if x is None: x = D` sequences are handled by the caller; here: `if p is None: p = D` -> `p = D`"""
    changed = 0
    for n in ast.walk(fn):
        for fld in ("body", "orelse", "finalbody"):
            seq = getattr(n, fld, None)
            if isinstance(seq, list):
                for i, st in enumerate(seq):
                    d = _rebind_if_none(st, name_of_local)
                    if d is not None:
                        seq[i] = ast.copy_location(ast.Assign(targets=[ast.copy_location(ast.Name(id=name_of_local, ctx=ast.Store()), st)], value=d, type_comment=None), st)
                        seq[i]._collab = True
                        changed += 1
    return changed


def eliminate_optional_collaborators(trees):
    """trees: {module name: ast.Module}; rewrites in place, returns a list of what was read as its default"""
    import copy as _copy

    # what the package's calls supply
    kw_pairs = set()  # (callee simple name or None when it is not a plain name, keyword)
    pos_count = {}  # callee simple name -> max number of positional arguments in any call (inf with *args)
    for t in trees.values():
        for n in ast.walk(t):
            if isinstance(n, ast.Call):
                nm = n.func.attr if isinstance(n.func, ast.Attribute) else n.func.id if isinstance(n.func, ast.Name) else None
                for k in n.keywords:
                    kw_pairs.add((nm, k.arg))
                if nm:
                    cnt = float("inf") if any(isinstance(a, ast.Starred) for a in n.args) else len(n.args)
                    pos_count[nm] = max(pos_count.get(nm, 0), cnt)
    done = []
    for mname, tree in trees.items():
        classes = [c for c in ast.walk(tree) if isinstance(c, ast.ClassDef)]
        owner = {}
        for c in classes:
            for st in c.body:
                if isinstance(st, (ast.FunctionDef, ast.AsyncFunctionDef)):
                    owner[id(st)] = c
        for fn in [f for f in ast.walk(tree) if isinstance(f, (ast.FunctionDef, ast.AsyncFunctionDef))]:
            a = fn.args
            pos = a.posonlyargs + a.args
            cands = []
            for i, x in enumerate(pos):
                di = i - (len(pos) - len(a.defaults))
                if di >= 0 and _is_none_const(a.defaults[di]):
                    cands.append((x.arg, "pos", i))
            for i, x in enumerate(a.kwonlyargs):
                if a.kw_defaults[i] is not None and _is_none_const(a.kw_defaults[i]):
                    cands.append((x.arg, "kw", i))
            cls = owner.get(id(fn))
            for p, kind, i in cands:
                callee_names = {fn.name, None} | ({cls.name, "__init__", "s"} if cls is not None and fn.name == "__init__" else set())
                if any((nm, p) in kw_pairs for nm in callee_names):
                    continue
                if kind == "pos":
                    reach = i - (1 if cls is not None and not any(isinstance(d, ast.Name) and d.id == "staticmethod" for d in fn.decorator_list) else 0)
                    if any(pos_count.get(nm, 0) > reach for nm in callee_names if nm):
                        continue
                    if i != len(pos) - 1 and any(not _is_none_const(d) for d in a.defaults[i - (len(pos) - len(a.defaults)) + 1 :]):
                        continue  # (later positional parameters would shift)
                same_p = lambda e, p=p: isinstance(e, ast.Name) and e.id == p  # noqa: E731
                stores = [n for n in ast.walk(fn) if isinstance(n, ast.Name) and n.id == p and isinstance(n.ctx, (ast.Store, ast.Del))]
                probe = _copy.deepcopy(fn)
                # (1) the parameter is stored into one private field and used nowhere else
                field = None
                for st in probe.body:
                    if isinstance(st, ast.Assign) and len(st.targets) == 1 and _is_self_attr(st.targets[0]) and same_p(st.value) and cls is not None and fn.name == "__init__":
                        field = st.targets[0].attr
                loads = [n for n in ast.walk(fn) if isinstance(n, ast.Name) and n.id == p and isinstance(n.ctx, ast.Load)]
                if field is not None and len(loads) == 1 and not stores and field.startswith("_"):
                    same_f = lambda e, f=field: _is_self_attr(e, f) and isinstance(getattr(e, "ctx", None), ast.Load)  # noqa: E731
                    # every use of the field in the whole package is a fallback (or `x = self.f` + `if x is None: x = D`)
                    ok = True
                    touched = []
                    for t2 in trees.values():
                        other_stores = [n for n in ast.walk(t2) if isinstance(n, ast.Attribute) and n.attr == field and isinstance(n.ctx, (ast.Store, ast.Del))]
                        for c2 in [c for c in ast.walk(t2) if isinstance(c, ast.ClassDef)]:
                            if not any(_is_self_attr(n, field) for n in ast.walk(c2)):
                                continue
                            if c2 is not cls and not any((isinstance(b, ast.Name) and b.id == cls.name) or (isinstance(b, ast.Attribute) and b.attr == cls.name) for b in c2.bases):
                                # another class's own attribute of that name: must not be confused -- it has its own store
                                if any(_is_self_attr(n, field) and isinstance(n.ctx, ast.Store) for n in ast.walk(c2)):
                                    continue
                                ok = False
                            touched.append(c2)
                    if not ok:
                        continue
                    plans = []
                    for c2 in touched:
                        for f2 in [f for f in c2.body if isinstance(f, (ast.FunctionDef, ast.AsyncFunctionDef))]:
                            cp = _copy.deepcopy(f2)
                            if f2 is fn:
                                cp.body = [st for st in cp.body if not (isinstance(st, ast.Assign) and len(st.targets) == 1 and _is_self_attr(st.targets[0], field))]
                            # local = self.f ; if local is None: local = D   ->   local = D
                            for n in ast.walk(cp):
                                for fld in ("body", "orelse", "finalbody"):
                                    seq = getattr(n, fld, None)
                                    if isinstance(seq, list):
                                        for j in range(len(seq) - 1):
                                            s0, s1 = seq[j], seq[j + 1]
                                            if isinstance(s0, ast.Assign) and len(s0.targets) == 1 and isinstance(s0.targets[0], ast.Name) and same_f(s0.value):
                                                dflt = _rebind_if_none(s1, s0.targets[0].id)
                                                if dflt is not None:
                                                    s0.value = dflt
                                                    s0._collab = True
                                                    seq[j + 1] = ast.copy_location(ast.Pass(), s1)
                            _inline_name_aliases(cp)
                            tr = _Fallbacks(same_f)
                            cp = tr.visit(cp)
                            if tr.other or any(_is_self_attr(n, field) for n in ast.walk(cp)):
                                ok = False
                            plans.append((c2, f2, cp))
                    if not ok:
                        continue
                    for c2, f2, cp in plans:
                        if f2 is fn:
                            _drop_param(cp, p)
                        c2.body[c2.body.index(f2)] = cp
                        if f2 is fn:
                            owner[id(cp)] = c2
                    done.append("%s.%s.%s (self.%s)" % (mname, cls.name, p, field))
                    break  # the function object was replaced: its other candidates are handled on the next Program load pass
                # (1b) `if p is not None: self.f = p` over a class-level `f = None`: never stored when p is not supplied
                if cls is not None and fn.name == "__init__" and not stores:
                    cond = [st for st in fn.body if isinstance(st, ast.If) and not st.orelse and len(st.body) == 1 and isinstance(st.test, ast.Compare) and len(st.test.ops) == 1 and isinstance(st.test.ops[0], ast.IsNot) and same_p(st.test.left) and _is_none_const(st.test.comparators[0]) and isinstance(st.body[0], ast.Assign) and len(st.body[0].targets) == 1 and _is_self_attr(st.body[0].targets[0]) and same_p(st.body[0].value)]
                    if len(cond) == 1 and len(loads) == 2:
                        f_ = cond[0].body[0].targets[0].attr
                        class_none = any((isinstance(b, ast.Assign) and any(isinstance(t, ast.Name) and t.id == f_ for t in b.targets) and _is_none_const(b.value)) or (isinstance(b, ast.AnnAssign) and isinstance(b.target, ast.Name) and b.target.id == f_ and b.value is not None and _is_none_const(b.value)) for b in cls.body)
                        other_stores = [n for t2 in trees.values() for n in ast.walk(t2) if isinstance(n, ast.Attribute) and n.attr == f_ and isinstance(n.ctx, (ast.Store, ast.Del)) and n is not cond[0].body[0].targets[0]]
                        if class_none and not other_stores and f_.startswith("_"):
                            same_f = lambda e, f=f_: _is_self_attr(e, f) and isinstance(getattr(e, "ctx", None), ast.Load)  # noqa: E731
                            plans, ok = [], True
                            for f2 in [f for f in cls.body if isinstance(f, (ast.FunctionDef, ast.AsyncFunctionDef))]:
                                cp = _copy.deepcopy(f2)
                                if f2 is fn:
                                    cp.body = [st for st in cp.body if not (isinstance(st, ast.If) and st.lineno == cond[0].lineno)]
                                for n in ast.walk(cp):
                                    for fld in ("body", "orelse", "finalbody"):
                                        seq = getattr(n, fld, None)
                                        if isinstance(seq, list):
                                            for j in range(len(seq) - 1):
                                                s0, s1 = seq[j], seq[j + 1]
                                                if isinstance(s0, ast.Assign) and len(s0.targets) == 1 and isinstance(s0.targets[0], ast.Name) and same_f(s0.value):
                                                    dflt = _rebind_if_none(s1, s0.targets[0].id)
                                                    if dflt is not None:
                                                        s0.value = dflt
                                                        s0._collab = True
                                                        seq[j + 1] = ast.copy_location(ast.Pass(), s1)
                                _inline_name_aliases(cp)
                                tr = _Fallbacks(same_f)
                                cp = tr.visit(cp)
                                if tr.other or any(_is_self_attr(n, f_) for n in ast.walk(cp)):
                                    ok = False
                                plans.append((f2, cp))
                            if ok and not any(isinstance(n, ast.Attribute) and n.attr == f_ for t2 in trees.values() for c2 in ast.walk(t2) if isinstance(c2, ast.ClassDef) and c2 is not cls for n in ast.walk(c2)):
                                for f2, cp in plans:
                                    if f2 is fn:
                                        _drop_param(cp, p)
                                    cls.body[cls.body.index(f2)] = cp
                                    owner[id(cp)] = cls
                                done.append("%s.%s.%s (class default %s)" % (mname, cls.name, p, f_))
                                break
                # (2) the parameter itself is only used to fall back
                cp = _copy.deepcopy(fn)
                n_rebind = _rewrite_blocks(cp, p) if len(stores) == 1 else 0
                if stores and not n_rebind:
                    continue
                if n_rebind:
                    # `p = D` dominates every read of p: all loads lie in the statements that follow it in its own block
                    first, block = None, None
                    for n in ast.walk(cp):
                        for fld in ("body", "orelse", "finalbody"):
                            seq = getattr(n, fld, None)
                            if isinstance(seq, list):
                                for st in seq:
                                    if isinstance(st, ast.Assign) and len(st.targets) == 1 and isinstance(st.targets[0], ast.Name) and st.targets[0].id == p:
                                        first, block = st, seq
                    if first is None:
                        continue
                    after = {id(x) for st in block[block.index(first) + 1 :] for x in ast.walk(st)}
                    if any(isinstance(n, ast.Name) and n.id == p and isinstance(n.ctx, ast.Load) and id(n) not in after for n in ast.walk(cp)):
                        continue
                    _drop_param(cp, p)
                    _inline_name_aliases(cp)
                    # `p = D; self.f = p` with p used nowhere else  ->  `self.f = D`
                    uses = [n for n in ast.walk(cp) if isinstance(n, ast.Name) and n.id == p and isinstance(n.ctx, ast.Load)]
                    if len(uses) == 1 and first in cp.body:
                        j = cp.body.index(first)
                        nxt = cp.body[j + 1] if j + 1 < len(cp.body) else None
                        if isinstance(nxt, ast.Assign) and nxt.value is uses[0]:
                            nxt.value = first.value
                            del cp.body[j]
                else:
                    tr = _Fallbacks(same_p)
                    cp = tr.visit(cp)
                    if tr.other or any(isinstance(n, ast.Name) and n.id == p and isinstance(n.ctx, ast.Load) for n in ast.walk(cp)):
                        continue
                    _drop_param(cp, p)
                container = cls.body if cls is not None else None
                if container is None:
                    for n in ast.walk(tree):
                        for fld in ("body", "orelse", "finalbody"):
                            seq = getattr(n, fld, None)
                            if isinstance(seq, list) and fn in seq:
                                container = seq
                if container is None or fn not in container:
                    continue
                container[container.index(fn)] = cp
                if cls is not None:
                    owner[id(cp)] = cls
                done.append("%s.%s.%s" % (mname, fn.name, p))
                break
        if done:
            ast.fix_missing_locations(tree)
    return done


def _inline_name_aliases(fn):
    """`f = some.dotted.name` (f bound exactly once, not a parameter) followed by uses of f  ->  the dotted name at the uses
    (only for the aliases this pass itself produced from `x = self._f; if x is None: x = D`, marked _collab)"""
    for n in ast.walk(fn):
        for fld in ("body", "orelse", "finalbody"):
            seq = getattr(n, fld, None)
            if not isinstance(seq, list):
                continue
            for j, st in enumerate(list(seq)):
                if isinstance(st, ast.Assign) and getattr(st, "_collab", False) and len(st.targets) == 1 and isinstance(st.targets[0], ast.Name):
                    nm = st.targets[0].id
                    v = st.value
                    dotted_ok = isinstance(v, ast.Name) or (isinstance(v, ast.Attribute) and all(isinstance(x, (ast.Attribute, ast.Name)) for x in ast.walk(v) if not isinstance(x, ast.expr_context)))
                    binds = [x for x in ast.walk(fn) if isinstance(x, ast.Name) and x.id == nm and isinstance(x.ctx, (ast.Store, ast.Del))]
                    uses_ = [x for x in ast.walk(fn) if isinstance(x, ast.Name) and x.id == nm and isinstance(x.ctx, ast.Load)]
                    # (any expression may be moved to its single use in the statement that follows directly)
                    single = len(uses_) == 1 and j + 1 < len(seq) and any(x is uses_[0] for x in ast.walk(seq[j + 1])) and not isinstance(seq[j + 1], (ast.For, ast.While, ast.AsyncFor))
                    if not (dotted_ok or single) or len(binds) != 1 or any(a.arg == nm for a in ast.walk(fn) if isinstance(a, ast.arg)):
                        continue

                    class Sub(ast.NodeTransformer):
                        def visit_Name(self, node):
                            if node.id == nm and isinstance(node.ctx, ast.Load):
                                import copy as _c

                                return ast.copy_location(_c.deepcopy(v), node)
                            return node

                    for k, other in enumerate(seq):
                        if other is not st:
                            seq[k] = Sub().visit(other)
                    seq[seq.index(st)] = ast.copy_location(ast.Pass(), st)


def _drop_param(fn, p):
    a = fn.args
    pos = a.posonlyargs + a.args
    for lst in (a.posonlyargs, a.args):
        for i, x in enumerate(lst):
            if x.arg == p:
                gi = pos.index(x)
                di = gi - (len(pos) - len(a.defaults))
                if di >= 0:
                    del a.defaults[di]
                del lst[i]
                return
    for i, x in enumerate(a.kwonlyargs):
        if x.arg == p:
            del a.kwonlyargs[i]
            del a.kw_defaults[i]
            return


def strip_casts(tree):
    """typing.cast(T, x) is x"""
    names = set()
    mods = set()
    for n in ast.walk(tree):
        if isinstance(n, ast.ImportFrom) and n.module in ("typing", "typing_extensions"):
            for a in n.names:
                if a.name == "cast":
                    names.add(a.asname or a.name)
        elif isinstance(n, ast.Import):
            for a in n.names:
                if a.name in ("typing", "typing_extensions"):
                    mods.add(a.asname or a.name)
    if not names and not mods:
        return 0
    count = [0]

    class T(ast.NodeTransformer):
        def visit_Call(self, node):
            self.generic_visit(node)
            f = node.func
            is_cast = (isinstance(f, ast.Name) and f.id in names) or (isinstance(f, ast.Attribute) and f.attr == "cast" and isinstance(f.value, ast.Name) and f.value.id in mods)
            if is_cast and len(node.args) == 2 and not node.keywords:
                count[0] += 1
                return node.args[1]
            return node

    T().visit(tree)
    if count[0]:
        ast.fix_missing_locations(tree)
    return count[0]


# ---------------------------------------------------------------------------------------------------------------------
# Functional forms read as the comprehensions / loops they are (lazy in both spellings):
#
#     filter(f, xs)  filterfalse(f, xs)  map(f, xs)  starmap(f, xs)     ->  generator expressions
#     attrgetter("a")(v) -> v.a    partial(g, a)(v) -> g(a, v)    operator.eq(a, b) -> a == b    (lambda p: E)(v) -> E[v/p]
#     d.__getitem__(k) -> d[k]     d.__contains__(k) -> k in d
#     for t in (E for v in xs if c): BODY          ->  for v in xs:  if c:  t = E; BODY
#     for t in takewhile(lambda _: c, xs): BODY    ->  for t in xs:  if not c: break;  BODY
#     for t in chain(a, b): BODY                   ->  for t in a: BODY;  for t in b: BODY          (BODY without break)
#     for t in chain.from_iterable(g): BODY        ->  for _s in g:  for t in _s: BODY                (BODY without break)
#     for _ in <generator>: pass                   is kept as the loop that drives the generator

_OPS = {"eq": ast.Eq, "ne": ast.NotEq, "lt": ast.Lt, "le": ast.LtE, "gt": ast.Gt, "ge": ast.GtE, "is_": ast.Is, "is_not": ast.IsNot}


def _imports(tree):
    """local name -> qualified name for the itertools / functools / operator / builtins names this pass knows"""
    out = {}
    for n in ast.walk(tree):
        if isinstance(n, ast.ImportFrom) and n.module in ("itertools", "functools", "operator") and n.level == 0:
            for a in n.names:
                out[a.asname or a.name] = "%s.%s" % (n.module, a.name)
        elif isinstance(n, ast.Import):
            for a in n.names:
                if a.name in ("itertools", "functools", "operator"):
                    out[a.asname or a.name] = a.name
    return out


def _qual(e, imp, shadowed):
    if isinstance(e, ast.Name):
        if e.id in imp and "." in imp[e.id]:
            return imp[e.id]
        if e.id in ("map", "filter", "zip", "repr", "set", "list", "tuple") and e.id not in shadowed and e.id not in imp:
            return "builtins." + e.id
        return None
    if isinstance(e, ast.Attribute):
        b = _qual_mod(e.value, imp)
        if b:
            return b + "." + e.attr
        q = _qual(e.value, imp, shadowed)
        if q:
            return q + "." + e.attr
    return None


def _qual_mod(e, imp):
    if isinstance(e, ast.Name) and imp.get(e.id) in ("itertools", "functools", "operator"):
        return imp[e.id]
    return None


def _subst_name(expr, name, value):
    import copy as _c

    class S(ast.NodeTransformer):
        def visit_Name(self, node):
            if node.id == name and isinstance(node.ctx, ast.Load):
                return ast.copy_location(_c.deepcopy(value), node)
            return node

        def visit_Lambda(self, node):
            if any(a.arg == name for a in node.args.args):
                return node
            return self.generic_visit(node)

    return S().visit(_c.deepcopy(expr))


def defunctionalise(tree):
    imp = _imports(tree)
    shadowed = {n.id for n in ast.walk(tree) if isinstance(n, ast.Name) and isinstance(n.ctx, ast.Store)} | {n.name for n in ast.walk(tree) if isinstance(n, (ast.FunctionDef, ast.AsyncFunctionDef, ast.ClassDef))}
    counter = [0]
    stats = [0]

    def fresh(at):
        counter[0] += 1
        return "_v%d_%d" % (getattr(at, "lineno", 0), counter[0])

    def apply_fn(f, args, at):
        """the expression f(*args) with f read through the spellings this pass knows; None when f is opaque"""
        if isinstance(f, ast.Lambda) and not f.args.vararg and not f.args.kwarg and not f.args.kwonlyargs and not f.args.defaults and len(f.args.args) == len(args):
            body = f.body
            for a, v in zip(f.args.args, args):
                uses = [x for x in ast.walk(body) if isinstance(x, ast.Name) and x.id == a.arg]
                if len(uses) > 1 and not isinstance(v, (ast.Name, ast.Constant)):
                    return None
                body = _subst_name(body, a.arg, v)
            return body
        if isinstance(f, ast.Call):
            q = _qual(f.func, imp, shadowed)
            if q == "operator.attrgetter" and len(f.args) == 1 and isinstance(f.args[0], ast.Constant) and isinstance(f.args[0].value, str) and "." not in f.args[0].value and len(args) == 1:
                return ast.copy_location(ast.Attribute(value=args[0], attr=f.args[0].value, ctx=ast.Load()), at)
            if q == "functools.partial" and f.args and not any(isinstance(a, ast.Starred) for a in f.args):
                return apply_fn(f.args[0], list(f.args[1:]) + list(args), at) or ast.copy_location(ast.Call(func=f.args[0], args=list(f.args[1:]) + list(args), keywords=list(f.keywords)), at)
        q = _qual(f, imp, shadowed)
        if q and q.startswith("operator.") and q.split(".")[1] in _OPS and len(args) == 2:
            return ast.copy_location(ast.Compare(left=args[0], ops=[_OPS[q.split(".")[1]]()], comparators=[args[1]]), at)
        if isinstance(f, ast.Attribute) and f.attr == "__getitem__" and len(args) == 1:
            return ast.copy_location(ast.Subscript(value=f.value, slice=args[0], ctx=ast.Load()), at)
        if isinstance(f, ast.Attribute) and f.attr == "__contains__" and len(args) == 1:
            return ast.copy_location(ast.Compare(left=args[0], ops=[ast.In()], comparators=[f.value]), at)
        return None

    def call_of(f, args, at):
        return apply_fn(f, args, at) or ast.copy_location(ast.Call(func=f, args=list(args), keywords=[]), at)

    class Exprs(ast.NodeTransformer):
        def visit_Call(self, node):
            self.generic_visit(node)
            q = _qual(node.func, imp, shadowed)
            if node.keywords:
                return node
            a = node.args
            if any(isinstance(x, ast.Starred) for x in a):
                return node
            v = None
            if q in ("builtins.filter", "itertools.filterfalse") and len(a) == 2:
                v = fresh(node)
                var = ast.Name(id=v, ctx=ast.Load())
                cond = var if (isinstance(a[0], ast.Constant) and a[0].value is None) else call_of(a[0], [var], node)
                if q == "itertools.filterfalse":
                    cond = ast.UnaryOp(op=ast.Not(), operand=cond)
                gen = ast.GeneratorExp(elt=ast.Name(id=v, ctx=ast.Load()), generators=[ast.comprehension(target=ast.Name(id=v, ctx=ast.Store()), iter=a[1], ifs=[cond], is_async=0)])
            elif q == "builtins.map" and len(a) == 2:
                v = fresh(node)
                gen = ast.GeneratorExp(elt=call_of(a[0], [ast.Name(id=v, ctx=ast.Load())], node), generators=[ast.comprehension(target=ast.Name(id=v, ctx=ast.Store()), iter=a[1], ifs=[], is_async=0)])
            elif q == "itertools.starmap" and len(a) == 2:
                v = fresh(node)
                # starmap(self.m, pairs) with m(self, x, y) a method of the module: the items are destructured as (x, y)
                names = None
                if isinstance(a[0], ast.Attribute) and isinstance(a[0].value, ast.Name) and a[0].value.id in ("self", "cls"):
                    defs = [f for f in ast.walk(tree) if isinstance(f, ast.FunctionDef) and f.name == a[0].attr]
                    if len(defs) == 1 and not defs[0].args.vararg and not defs[0].args.kwonlyargs and not defs[0].args.defaults and len(defs[0].args.args) >= 2:
                        names = [x.arg + "_%d" % counter[0] for x in defs[0].args.args[1:]]
                if names:
                    tgt = ast.Tuple(elts=[ast.Name(id=nm, ctx=ast.Store()) for nm in names], ctx=ast.Store())
                    gen = ast.GeneratorExp(elt=ast.Call(func=a[0], args=[ast.Name(id=nm, ctx=ast.Load()) for nm in names], keywords=[]), generators=[ast.comprehension(target=tgt, iter=a[1], ifs=[], is_async=0)])
                else:
                    gen = ast.GeneratorExp(elt=ast.Call(func=a[0], args=[ast.Starred(value=ast.Name(id=v, ctx=ast.Load()), ctx=ast.Load())], keywords=[]), generators=[ast.comprehension(target=ast.Name(id=v, ctx=ast.Store()), iter=a[1], ifs=[], is_async=0)])
            elif isinstance(node.func, ast.Attribute) and node.func.attr in ("call_soon_threadsafe", "call_soon", "start_soon") and a and isinstance(a[0], ast.Call) and _qual(a[0].func, imp, shadowed) == "functools.partial" and a[0].args and not a[0].keywords and not any(isinstance(x, ast.Starred) for x in a[0].args):
                # loop.call_soon_threadsafe(partial(f, x))  ->  loop.call_soon_threadsafe(f, x): the same callback, the same arguments
                node.args = list(a[0].args) + list(a[1:])
                stats[0] += 1
                return node
            else:
                # a call of a known spelling with plain arguments:  attrgetter("a")(x), partial(g, a)(x), operator.eq(a, b)
                r = apply_fn(node.func, list(a), node) if isinstance(node.func, (ast.Call, ast.Lambda)) or (_qual(node.func, imp, shadowed) or "").startswith("operator.") else None
                if r is not None:
                    stats[0] += 1
                    return ast.copy_location(r, node)
                return node
            stats[0] += 1
            for x in ast.walk(gen):
                ast.copy_location(x, node)
            return gen

    Exprs().visit(tree)

    def no_break(body):
        def walk(stmts):
            for st in stmts:
                if isinstance(st, ast.Break):
                    return False
                if isinstance(st, (ast.For, ast.While, ast.AsyncFor, ast.FunctionDef, ast.AsyncFunctionDef, ast.ClassDef)):
                    continue
                for fld in ("body", "orelse", "finalbody"):
                    sub = getattr(st, fld, None)
                    if isinstance(sub, list) and sub and isinstance(sub[0], ast.stmt) and not walk(sub):
                        return False
                for h in getattr(st, "handlers", []) or []:
                    if not walk(h.body):
                        return False
            return True

        return walk(body)

    import copy as _c

    def loops(stmts):
        out = []
        for st in stmts:
            for fld in ("body", "orelse", "finalbody"):
                sub = getattr(st, fld, None)
                if isinstance(sub, list) and sub and isinstance(sub[0], ast.stmt):
                    setattr(st, fld, loops(sub))
            for h in getattr(st, "handlers", []) or []:
                h.body = loops(h.body)
            if isinstance(st, ast.For) and not st.orelse:
                it = st.iter
                q = _qual(it.func, imp, shadowed) if isinstance(it, ast.Call) else None
                if isinstance(it, ast.GeneratorExp) and len(it.generators) == 1 and not it.generators[0].is_async:
                    g = it.generators[0]
                    inner = list(st.body)
                    same = isinstance(st.target, ast.Name) and isinstance(it.elt, ast.Name) and isinstance(g.target, ast.Name) and it.elt.id == g.target.id
                    if same:
                        # for t in (v for v in xs if c)  ->  for t in xs: if c[t/v]: BODY
                        conds = [_subst_name(c, g.target.id, ast.Name(id=st.target.id, ctx=ast.Load())) for c in g.ifs]
                        new_target = st.target
                    else:
                        conds = list(g.ifs)
                        throwaway = isinstance(st.target, ast.Name) and st.target.id == "_" and all(isinstance(b, ast.Pass) for b in inner)
                        if throwaway:
                            # `for _ in (f(x) for x in xs): pass`  drives the generator: the calls are the loop body
                            inner = [ast.copy_location(ast.Expr(value=it.elt), st)]
                        else:
                            inner = [ast.copy_location(ast.Assign(targets=[st.target], value=it.elt, type_comment=None), st)] + inner
                        new_target = g.target
                    for c in reversed(conds):
                        inner = [ast.copy_location(ast.If(test=c, body=inner, orelse=[]), st)]
                    new = ast.copy_location(ast.For(target=new_target, iter=g.iter, body=inner, orelse=[], type_comment=None), st)
                    for x in ast.walk(new.target):
                        if hasattr(x, "ctx"):
                            x.ctx = ast.Store()
                    stats[0] += 1
                    out.extend(loops([new]))
                    continue
                if q == "itertools.takewhile" and len(it.args) == 2 and isinstance(it.args[0], ast.Lambda) and len(it.args[0].args.args) == 1 and isinstance(st.target, ast.Name):
                    cond = _subst_name(it.args[0].body, it.args[0].args.args[0].arg, ast.Name(id=st.target.id, ctx=ast.Load()))
                    guard = ast.copy_location(ast.If(test=_negate(cond), body=[ast.copy_location(ast.Break(), st)], orelse=[]), st)
                    st.iter = it.args[1]
                    st.body = [guard] + st.body
                    stats[0] += 1
                    out.extend(loops([st]))
                    continue
                if q == "itertools.chain" and it.args and not it.keywords and not any(isinstance(a, ast.Starred) for a in it.args) and no_break(st.body):
                    for a in it.args:
                        cp = _c.deepcopy(st)
                        cp.iter = a
                        one = isinstance(a, (ast.List, ast.Tuple)) and len(a.elts) == 1 and not isinstance(a.elts[0], ast.Starred)
                        if one and not any(isinstance(x, ast.Continue) for b in cp.body for x in ast.walk(b)):
                            # for x in [e]: BODY  ->  x = e; BODY
                            out.append(ast.copy_location(ast.Assign(targets=[cp.target], value=a.elts[0], type_comment=None), st))
                            out.extend(loops(cp.body))
                        else:
                            out.extend(loops([cp]))
                    stats[0] += 1
                    continue
                if q == "itertools.chain.from_iterable" and len(it.args) == 1 and no_break(st.body):
                    v = fresh(st)
                    inner = ast.copy_location(ast.For(target=st.target, iter=ast.copy_location(ast.Name(id=v, ctx=ast.Load()), st), body=st.body, orelse=[], type_comment=None), st)
                    outer = ast.copy_location(ast.For(target=ast.copy_location(ast.Name(id=v, ctx=ast.Store()), st), iter=it.args[0], body=[inner], orelse=[], type_comment=None), st)
                    stats[0] += 1
                    out.extend(loops([outer]))
                    continue
            out.append(st)
        return out

    def hoist_reduce(fn):
        """<stmt using reduce(lambda acc, x: E, xs, init) as the first thing it evaluates>  ->
               acc = init;  for x in xs: acc = E  [`acc = A if C else acc` -> `if C: acc = A`];  <stmt using acc>"""
        for blk in ast.walk(fn):
            for fld in ("body", "orelse", "finalbody"):
                seq = getattr(blk, fld, None)
                if not isinstance(seq, list):
                    continue
                for j, st in enumerate(list(seq)):
                    if not isinstance(st, (ast.Expr, ast.Assign, ast.Return)) or st.value is None:
                        continue
                    spine, parent, field = st.value, st, "value"
                    while True:
                        if isinstance(spine, ast.Call) and _qual(spine.func, imp, shadowed) == "functools.reduce":
                            break
                        if isinstance(spine, ast.Call):
                            parent, field, spine = spine, "func", spine.func
                        elif isinstance(spine, ast.Attribute):
                            parent, field, spine = spine, "value", spine.value
                        else:
                            spine = None
                            break
                    if spine is None or len(spine.args) != 3 or spine.keywords or not isinstance(spine.args[0], ast.Lambda):
                        continue
                    lam, xs, init = spine.args
                    if len(lam.args.args) != 2 or lam.args.vararg or lam.args.kwarg or lam.args.defaults:
                        continue
                    acc, x = lam.args.args[0].arg, lam.args.args[1].arg
                    names_in_fn = {n.id for n in ast.walk(fn) if isinstance(n, ast.Name)} - {n.id for n in ast.walk(lam) if isinstance(n, ast.Name)}
                    if acc in names_in_fn or x in names_in_fn:
                        acc, x2 = acc + "_%d" % st.lineno, x + "_%d" % st.lineno
                        body_e = _subst_name(_subst_name(lam.body, lam.args.args[0].arg, ast.Name(id=acc, ctx=ast.Load())), x, ast.Name(id=x2, ctx=ast.Load()))
                        x = x2
                    else:
                        body_e = _c.deepcopy(lam.body)
                    # x only used as x[0], x[1], ...: destructure
                    subs = [n for n in ast.walk(body_e) if isinstance(n, ast.Subscript) and isinstance(n.value, ast.Name) and n.value.id == x and isinstance(n.slice, ast.Constant) and isinstance(n.slice.value, int) and n.slice.value >= 0]
                    plain = [n for n in ast.walk(body_e) if isinstance(n, ast.Name) and n.id == x]
                    target = ast.Name(id=x, ctx=ast.Store())
                    if subs and len(subs) == len(plain):
                        width = max(n.slice.value for n in subs) + 1
                        if width == 2:  # (pairs: the only width the code base iterates this way)
                            names = ["%s_%d" % (x, k) for k in range(width)]

                            class D(ast.NodeTransformer):
                                def visit_Subscript(self, node):
                                    if isinstance(node.value, ast.Name) and node.value.id == x and isinstance(node.slice, ast.Constant):
                                        return ast.copy_location(ast.Name(id=names[node.slice.value], ctx=ast.Load()), node)
                                    return self.generic_visit(node)

                            body_e = D().visit(body_e)
                            target = ast.Tuple(elts=[ast.Name(id=nm, ctx=ast.Store()) for nm in names], ctx=ast.Store())
                    if isinstance(body_e, ast.IfExp) and isinstance(body_e.orelse, ast.Name) and body_e.orelse.id == acc:
                        step = ast.If(test=body_e.test, body=[ast.Assign(targets=[ast.Name(id=acc, ctx=ast.Store())], value=body_e.body, type_comment=None)], orelse=[])
                    elif isinstance(body_e, ast.IfExp) and isinstance(body_e.body, ast.Name) and body_e.body.id == acc:
                        step = ast.If(test=_negate(body_e.test), body=[ast.Assign(targets=[ast.Name(id=acc, ctx=ast.Store())], value=body_e.orelse, type_comment=None)], orelse=[])
                    else:
                        step = ast.Assign(targets=[ast.Name(id=acc, ctx=ast.Store())], value=body_e, type_comment=None)
                    pre = ast.Assign(targets=[ast.Name(id=acc, ctx=ast.Store())], value=init, type_comment=None)
                    loop = ast.For(target=target, iter=xs, body=[step], orelse=[], type_comment=None)
                    setattr(parent, field, ast.Name(id=acc, ctx=ast.Load()))
                    for new in (pre, loop):
                        for n in ast.walk(new):
                            ast.copy_location(n, st)
                    k = seq.index(st)
                    seq[k:k] = [pre, loop]
                    stats[0] += 1

    def inline_gen_locals(fn):
        """`g = (generator expression)` bound once and used only as the iterable of one for-loop: loop over it directly"""
        for blk in ast.walk(fn):
            for fld in ("body", "orelse", "finalbody"):
                seq = getattr(blk, fld, None)
                if not isinstance(seq, list):
                    continue
                for st in list(seq):
                    lazy = isinstance(getattr(st, "value", None), ast.GeneratorExp) or (isinstance(getattr(st, "value", None), ast.Call) and _qual(st.value.func, imp, shadowed) in ("itertools.chain.from_iterable", "itertools.chain", "itertools.takewhile"))
                    if isinstance(st, ast.Assign) and len(st.targets) == 1 and isinstance(st.targets[0], ast.Name) and lazy:
                        nm = st.targets[0].id
                        binds = [x for x in ast.walk(fn) if isinstance(x, ast.Name) and x.id == nm and isinstance(x.ctx, (ast.Store, ast.Del))]
                        uses = [x for x in ast.walk(fn) if isinstance(x, ast.Name) and x.id == nm and isinstance(x.ctx, ast.Load)]
                        if len(binds) != 1 or len(uses) != 1:
                            continue
                        placed = False
                        for other in seq[seq.index(st) + 1 :]:
                            if isinstance(other, ast.For) and other.iter is uses[0]:
                                other.iter = st.value
                                placed = True
                            else:
                                # ... or as the iterable of the (first) generator of a later lazy expression
                                for c in ast.walk(other):
                                    if isinstance(c, ast.GeneratorExp) and c.generators and c.generators[0].iter is uses[0]:
                                        c.generators[0].iter = st.value
                                        placed = True
                            if placed:
                                seq.remove(st)
                                stats[0] += 1
                                break

    for n in ast.walk(tree):
        if isinstance(n, (ast.FunctionDef, ast.AsyncFunctionDef)):
            inline_gen_locals(n)
            hoist_reduce(n)
            n.body = loops(n.body)
    if stats[0]:
        ast.fix_missing_locations(tree)
    return stats[0]


# ---------------------------------------------------------------------------------------------------------------------
# A few more spellings of the same loops / displays (applied per function, after defunctionalise):
#
#     [f(x) for x in xs]            as a statement            ->  for x in xs: f(x)
#     def h(p): BODY  (local, only called as a statement)     ->  BODY at the call sites (p := the argument name)
#     for a, b in zip(xs, repeat(E)): BODY                    ->  for a in xs: b = <E evaluated once before the loop>; BODY
#     (E2 for w in (E1 for v in xs if c))                     ->  (E2[w := E1] for v in xs if c)
#     dict(zip(d.keys(), (E for v in d.values())))            ->  {k: E for k, v in d.items()}
#     m = {**a};  m.update(b)                                 ->  m = {**a, **b}


def more_spellings(tree):
    imp = _imports(tree)
    import copy as _c

    stats = [0]

    class Fuse(ast.NodeTransformer):
        def visit_GeneratorExp(self, node):
            self.generic_visit(node)
            if len(node.generators) == 1 and not node.generators[0].ifs and isinstance(node.generators[0].iter, ast.GeneratorExp) and isinstance(node.generators[0].target, ast.Name):
                inner = node.generators[0].iter
                w = node.generators[0].target.id
                uses = [x for x in ast.walk(node.elt) if isinstance(x, ast.Name) and x.id == w]
                if len(inner.generators) == 1 and (len(uses) == 1 or isinstance(inner.elt, (ast.Name, ast.Attribute))):
                    stats[0] += 1
                    return ast.copy_location(ast.GeneratorExp(elt=_subst_name(node.elt, w, inner.elt), generators=inner.generators), node)
            return node

        def visit_Call(self, node):
            self.generic_visit(node)
            # dict(zip(d.keys(), (E for v in d.values())))
            if isinstance(node.func, ast.Name) and node.func.id == "dict" and len(node.args) == 1 and not node.keywords and isinstance(node.args[0], ast.Call) and isinstance(node.args[0].func, ast.Name) and node.args[0].func.id == "zip" and len(node.args[0].args) == 2:
                k, vs = node.args[0].args
                if isinstance(k, ast.Call) and isinstance(k.func, ast.Attribute) and k.func.attr == "keys" and not k.args and isinstance(vs, ast.GeneratorExp) and len(vs.generators) == 1 and not vs.generators[0].ifs and isinstance(vs.generators[0].target, ast.Name):
                    src = vs.generators[0].iter
                    if isinstance(src, ast.Call) and isinstance(src.func, ast.Attribute) and src.func.attr == "values" and not src.args and ast.dump(src.func.value) == ast.dump(k.func.value):
                        kn = "_k%d" % getattr(node, "lineno", 0)
                        items = ast.Call(func=ast.Attribute(value=k.func.value, attr="items", ctx=ast.Load()), args=[], keywords=[])
                        tgt = ast.Tuple(elts=[ast.Name(id=kn, ctx=ast.Store()), ast.Name(id=vs.generators[0].target.id, ctx=ast.Store())], ctx=ast.Store())
                        dc = ast.DictComp(key=ast.Name(id=kn, ctx=ast.Load()), value=vs.elt, generators=[ast.comprehension(target=tgt, iter=items, ifs=[], is_async=0)])
                        for x in ast.walk(dc):
                            ast.copy_location(x, node)
                        stats[0] += 1
                        return dc
            return node

    Fuse().visit(tree)

    def stmts(fn):
        # local helper functions called only as statements
        local_defs = {}
        for st in fn.body:
            if isinstance(st, ast.FunctionDef) and not st.decorator_list and not st.args.vararg and not st.args.kwarg and not st.args.kwonlyargs and not st.args.defaults:
                local_defs[st.name] = st
        for name, d in list(local_defs.items()):
            refs = [x for x in ast.walk(fn) if isinstance(x, ast.Name) and x.id == name and isinstance(x.ctx, ast.Load)]
            rets = [x for x in ast.walk(d) if isinstance(x, ast.Return) and x.value is not None and not _is_none_const(x.value)]
            inner_stores = {x.id for x in ast.walk(d) if isinstance(x, ast.Name) and isinstance(x.ctx, ast.Store)}
            outer_names = {x.id for b in fn.body if b is not d for x in ast.walk(b) if isinstance(x, ast.Name)} | {a.arg for a in fn.args.args}
            if rets or (inner_stores & outer_names) or any(isinstance(x, (ast.Yield, ast.YieldFrom, ast.Nonlocal, ast.Global, ast.Return)) for x in ast.walk(d)):
                del local_defs[name]
        changed = True
        while changed:
            changed = False
            for blk in ast.walk(fn):
                for fld in ("body", "orelse", "finalbody"):
                    seq = getattr(blk, fld, None)
                    if not isinstance(seq, list):
                        continue
                    for j, st in enumerate(list(seq)):
                        # [f(x) for x in xs] as a statement
                        if isinstance(st, ast.Expr) and isinstance(st.value, ast.ListComp) and len(st.value.generators) == 1 and not st.value.generators[0].is_async:
                            g = st.value.generators[0]
                            body = [ast.copy_location(ast.Expr(value=st.value.elt), st)]
                            for c in reversed(g.ifs):
                                body = [ast.copy_location(ast.If(test=c, body=body, orelse=[]), st)]
                            loop = ast.copy_location(ast.For(target=g.target, iter=g.iter, body=body, orelse=[], type_comment=None), st)
                            seq[j] = loop
                            stats[0] += 1
                            changed = True
                        # h(a) with h a local helper
                        if isinstance(st, ast.Expr) and isinstance(st.value, ast.Call) and isinstance(st.value.func, ast.Name) and st.value.func.id in local_defs and not st.value.keywords:
                            d = local_defs[st.value.func.id]
                            args = st.value.args
                            if len(args) == len(d.args.args) and all(isinstance(a, ast.Name) for a in args):
                                body = _c.deepcopy(d.body)
                                for prm, a in zip(d.args.args, args):
                                    if prm.arg != a.id:
                                        body = [_subst_name(b, prm.arg, a) for b in body]
                                body = [b for b in body if not (isinstance(b, ast.Expr) and isinstance(b.value, ast.Constant))]
                                seq[j : j + 1] = body
                                stats[0] += 1
                                changed = True
        for name, d in local_defs.items():
            if not any(isinstance(x, ast.Name) and x.id == name and isinstance(x.ctx, ast.Load) for x in ast.walk(fn)) and d in fn.body:
                fn.body.remove(d)
        # zip(xs, repeat(E))
        for blk in ast.walk(fn):
            for fld in ("body", "orelse", "finalbody"):
                seq = getattr(blk, fld, None)
                if not isinstance(seq, list):
                    continue
                for j, st in enumerate(list(seq)):
                    if isinstance(st, ast.For) and isinstance(st.iter, ast.Call) and isinstance(st.iter.func, ast.Name) and st.iter.func.id == "zip" and len(st.iter.args) == 2 and isinstance(st.target, ast.Tuple) and len(st.target.elts) == 2 and isinstance(st.target.elts[1], ast.Name):
                        xs, rp = st.iter.args
                        src = rp
                        local = None
                        if isinstance(rp, ast.Name):
                            bound = [b for b in seq[:j] if isinstance(b, ast.Assign) and len(b.targets) == 1 and isinstance(b.targets[0], ast.Name) and b.targets[0].id == rp.id]
                            uses = [x for x in ast.walk(fn) if isinstance(x, ast.Name) and x.id == rp.id and isinstance(x.ctx, ast.Load)]
                            if len(bound) == 1 and len(uses) == 1:
                                src, local = bound[0].value, bound[0]
                        if isinstance(src, ast.Call) and _qual(src.func, imp, set()) == "itertools.repeat" and len(src.args) == 1 and not src.keywords:
                            once = "_once%d" % st.lineno
                            pre = ast.copy_location(ast.Assign(targets=[ast.copy_location(ast.Name(id=once, ctx=ast.Store()), st)], value=src.args[0], type_comment=None), local or st)
                            st.iter = xs
                            bvar = st.target.elts[1]
                            st.target = st.target.elts[0]
                            st.body = [ast.copy_location(ast.Assign(targets=[bvar], value=ast.copy_location(ast.Name(id=once, ctx=ast.Load()), st), type_comment=None), st)] + st.body
                            if local is not None:
                                seq[seq.index(local)] = pre
                            else:
                                seq.insert(seq.index(st), pre)
                            stats[0] += 1
        # m = {**a}; m.update(b)
        for blk in ast.walk(fn):
            for fld in ("body", "orelse", "finalbody"):
                seq = getattr(blk, fld, None)
                if not isinstance(seq, list):
                    continue
                j = 0
                while j + 1 < len(seq):
                    s0, s1 = seq[j], seq[j + 1]
                    if isinstance(s0, ast.Assign) and len(s0.targets) == 1 and isinstance(s0.targets[0], ast.Name) and isinstance(s0.value, ast.Dict) and isinstance(s1, ast.Expr) and isinstance(s1.value, ast.Call) and isinstance(s1.value.func, ast.Attribute) and s1.value.func.attr == "update" and isinstance(s1.value.func.value, ast.Name) and s1.value.func.value.id == s0.targets[0].id and len(s1.value.args) == 1 and not s1.value.keywords and isinstance(s1.value.args[0], ast.Name):
                        s0.value.keys.append(None)
                        s0.value.values.append(s1.value.args[0])
                        del seq[j + 1]
                        stats[0] += 1
                        continue
                    j += 1

    for n in ast.walk(tree):
        if isinstance(n, (ast.FunctionDef, ast.AsyncFunctionDef)):
            stmts(n)
    if stats[0]:
        ast.fix_missing_locations(tree)
    return stats[0]


# ------------------------------------------------------------------------------------------------------------------
# whole-package: a PRIVATE class of the package that only serves as a base / mixin of other package classes is read as if
# its members were written in those classes (the pull-up refactoring undone).  Exactness: a member is copied only where
# attribute lookup on the subclass finds exactly it -- the subclass does not define the name itself and no base listed
# BEFORE the private one (nor their package ancestors) defines it; a member using zero-argument super() is copied only
# when the private class is the first base (the MRO tail it sees is then the one the subclass would see).
def _dotted(node):
    if isinstance(node, ast.Name):
        return node.id
    if isinstance(node, ast.Attribute):
        b = _dotted(node.value)
        return None if b is None else b + "." + node.attr
    return None


def flatten_private_bases(mods):
    """mods: {module name: (tree, is_pkg)}; returns a list of notes 'Sub <- _Base (members)'"""
    import builtins as _bi

    def abs_mod(name, is_pkg, level, target):
        if level == 0:
            return target or ""
        pkg = name if is_pkg else name.rpartition(".")[0]
        base = pkg.split(".") if pkg else []
        if level > 1:
            base = base[: len(base) - (level - 1)]
        return ".".join(base + ([target] if target else []))

    def bindings(name):
        """module-level name -> ('def', module, name) | ('imp', module, obj) | ('mod', module)"""
        tree, is_pkg = mods[name]
        out = {}
        for st in tree.body:
            if isinstance(st, (ast.ClassDef, ast.FunctionDef, ast.AsyncFunctionDef)):
                out[st.name] = ("def", name, st.name)
            elif isinstance(st, ast.Assign):
                for t in st.targets:
                    if isinstance(t, ast.Name):
                        out[t.id] = ("def", name, t.id)
            elif isinstance(st, ast.AnnAssign) and isinstance(st.target, ast.Name):
                out[st.target.id] = ("def", name, st.target.id)
            elif isinstance(st, ast.Import):
                for a in st.names:
                    out[(a.asname or a.name).split(".")[0]] = ("mod", a.name if a.asname else a.name.split(".")[0])
            elif isinstance(st, ast.ImportFrom):
                m = abs_mod(name, is_pkg, st.level, st.module)
                for a in st.names:
                    out[a.asname or a.name] = ("imp", m, a.name)
        return out

    binds = {n: bindings(n) for n in mods}

    def canon(b, depth=0):
        # follow imports of package names to their definition
        while b and b[0] == "imp" and depth < 6:
            m, o = b[1], b[2]
            if m in mods and o in binds[m]:
                b = binds[m][o]
            elif (m + "." + o) in mods:
                return ("mod", m + "." + o)
            else:
                return b
            depth += 1
        return b

    def class_of(modname, expr):
        """(module, ClassDef) of a base expression if it is a class of the package"""
        if isinstance(expr, ast.Name):
            b = canon(binds[modname].get(expr.id))
            if b and b[0] == "def" and b[1] in mods:
                for st in mods[b[1]][0].body:
                    if isinstance(st, ast.ClassDef) and st.name == b[2]:
                        return b[1], st
        elif isinstance(expr, ast.Attribute) and isinstance(expr.value, ast.Name):
            b = canon(binds[modname].get(expr.value.id))
            if b and b[0] == "mod" and b[1] in mods:
                for st in mods[b[1]][0].body:
                    if isinstance(st, ast.ClassDef) and st.name == expr.attr:
                        return b[1], st
        return None

    def members(cls):
        out = {}
        for st in cls.body:
            if isinstance(st, (ast.FunctionDef, ast.AsyncFunctionDef, ast.ClassDef)):
                out.setdefault(st.name, []).append(st)
            elif isinstance(st, ast.Assign):
                for t in st.targets:
                    if isinstance(t, ast.Name):
                        out.setdefault(t.id, []).append(st)
            elif isinstance(st, ast.AnnAssign) and isinstance(st.target, ast.Name):
                out.setdefault(st.target.id, []).append(st)
        return out

    def defined_in_chain(modname, expr, seen=None):
        """names defined by a base expression and its package ancestors; None when an ancestor is outside the package
        and not one of the inert ones"""
        seen = seen if seen is not None else set()
        got = class_of(modname, expr)
        if got is None:
            d = _dotted(expr) or ""
            if d.split(".")[-1] in ("object", "Generic", "ABC", "Protocol") or isinstance(expr, ast.Subscript):
                return set()
            return None
        m, c = got
        if id(c) in seen:
            return set()
        seen.add(id(c))
        names = set(members(c))
        for b in c.bases:
            sub = defined_in_chain(m, b, seen)
            if sub is None:
                return None
            names |= sub
        return names

    notes = []
    for _round in range(3):
        changed = False
        for modname, (tree, _is_pkg) in mods.items():
            for cls in [st for st in tree.body if isinstance(st, ast.ClassDef)]:
                for i, bexpr in enumerate(list(cls.bases)):
                    got = class_of(modname, bexpr)
                    if got is None:
                        continue
                    bmod, base = got
                    if not base.name.startswith("_") or base.name.startswith("__") or base.decorator_list:
                        continue
                    own = members(cls)
                    earlier = set()
                    exact = True
                    for e in cls.bases[:i]:
                        d = defined_in_chain(modname, e)
                        if d is None:
                            exact = False
                            break
                        earlier |= d
                    if not exact:
                        continue
                    moved = []
                    abort = False
                    need_import = {}
                    for st in base.body:
                        names = [st.name] if isinstance(st, (ast.FunctionDef, ast.AsyncFunctionDef, ast.ClassDef)) else ([t.id for t in st.targets if isinstance(t, ast.Name)] if isinstance(st, ast.Assign) else ([st.target.id] if isinstance(st, ast.AnnAssign) and isinstance(st.target, ast.Name) else None))
                        if names is None:
                            if isinstance(st, ast.Expr) and isinstance(st.value, ast.Constant):
                                continue  # docstring
                            if isinstance(st, ast.Pass):
                                continue
                            abort = True
                            break
                        if names == ["__slots__"]:
                            continue
                        if any(n in own or n in earlier for n in names):
                            continue  # shadowed on the subclass: lookup never reaches it
                        uses_super = any(isinstance(n, ast.Call) and isinstance(n.func, ast.Name) and n.func.id == "super" for n in ast.walk(st))
                        if uses_super and i != 0:
                            abort = True
                            break
                        # module-level names the member reads must mean the same in the subclass's module
                        bound_local = set()
                        for n in ast.walk(st):
                            if isinstance(n, ast.Name) and isinstance(n.ctx, ast.Load):
                                nm = n.id
                                if nm in binds[bmod] and bmod != modname:
                                    src = canon(binds[bmod][nm])
                                    if nm in binds[modname]:
                                        if canon(binds[modname][nm]) != src:
                                            abort = True
                                    else:
                                        need_import[nm] = (bmod, src)
                        if abort:
                            break
                        moved.append(st)
                    if abort:
                        continue
                    # splice
                    for st in moved:
                        cls.body.append(copy.deepcopy(st))
                    for nm, (bm, src) in need_import.items():
                        imp = ast.ImportFrom(module=bm, names=[ast.alias(name=nm, asname=None)], level=0)
                        ast.copy_location(imp, tree.body[0])
                        ast.fix_missing_locations(imp)
                        tree.body.insert(0, imp)
                        binds[modname][nm] = ("imp", bm, nm)
                    new_bases = []
                    for b in base.bases:
                        tgt = class_of(bmod, b)
                        d = _dotted(b)
                        if d in ("object",):
                            continue
                        # the base's own bases, spelled so that they resolve in the subclass's module
                        if isinstance(b, ast.Name) and bmod != modname:
                            if b.id in binds[modname]:
                                if canon(binds[modname][b.id]) != canon(binds[bmod].get(b.id)):
                                    new_bases = None
                                    break
                            else:
                                imp = ast.ImportFrom(module=bmod, names=[ast.alias(name=b.id, asname=None)], level=0)
                                ast.copy_location(imp, tree.body[0])
                                ast.fix_missing_locations(imp)
                                tree.body.insert(0, imp)
                                binds[modname][b.id] = ("imp", bmod, b.id)
                        if any(ast.dump(b) == ast.dump(x) for x in cls.bases):
                            continue
                        new_bases.append(copy.deepcopy(b))
                    if new_bases is None:
                        continue
                    cls.bases[i : i + 1] = new_bases
                    if not cls.bases and not cls.keywords:
                        pass
                    for kw in base.keywords:
                        if not any(k.arg == kw.arg for k in cls.keywords):
                            cls.keywords.append(copy.deepcopy(kw))
                    notes.append("%s:%s <- %s:%s (%s)" % (modname, cls.name, bmod, base.name, ", ".join(getattr(s, "name", None) or "attr" for s in moved)))
                    changed = True
                    break
        if not changed:
            break
    # a flattened private base nothing refers to any more is dropped (its members now live in its subclasses)
    flattened = {(n.split(" <- ")[1].split(" (")[0]) for n in notes}
    for key in sorted(flattened):
        bmod, bname = key.split(":")
        referenced = False
        for modname, (tree, _p) in mods.items():
            for n in ast.walk(tree):
                if isinstance(n, ast.ClassDef) and n.name == bname and modname == bmod:
                    continue
                if isinstance(n, ast.Name) and n.id == bname:
                    referenced = True
                if isinstance(n, ast.Attribute) and n.attr == bname:
                    referenced = True
                if isinstance(n, ast.Constant) and isinstance(n.value, str) and n.value == bname:
                    referenced = True  # __all__, string annotations
        if referenced:
            continue
        tree = mods[bmod][0]
        tree.body[:] = [st for st in tree.body if not (isinstance(st, ast.ClassDef) and st.name == bname)]
        for modname, (tree2, _p) in mods.items():
            for st in list(tree2.body):
                if isinstance(st, ast.ImportFrom) and any(a.name == bname for a in st.names):
                    st.names[:] = [a for a in st.names if a.name != bname]
                    if not st.names:
                        tree2.body.remove(st)
        notes.append("%s dropped (no reference left)" % key)
    return notes


# ------------------------------------------------------------------------------------------------------------------
# Tables: a loop / comprehension over a CONSTANT table of rows (a tuple of tuples bound once at module level, in the class
# body or in a local, whose cells are constants, names, lambdas, methodcaller / attrgetter / partial spellings) is read as
# the statements it abbreviates:
#
#     for applies, act in TABLE:            if C1: A1               for ev, op in ((a, "set"), (b, "clear")):     a.set()
#         if applies(x): act(y); break  ->  elif C2: A2       and       getattr(ev, op)()                     ->  b.clear()
#     else: D                               else: D
#
# with (lambda p: E)(x) -> E[x/p] (left to defunctionalise), getattr(o, "n") -> o.n, setattr(o, "n", v) -> o.n = v,
# methodcaller("m")(o) -> o.m(), operator.iadd(a, b) -> a + b.  Evaluation order, short-circuiting and the fall-through
# are those of the loop; a loop whose break / continue structure is anything else is left alone.
_ARITH = {"add": ast.Add, "sub": ast.Sub, "mul": ast.Mult, "truediv": ast.Div, "floordiv": ast.FloorDiv, "mod": ast.Mod, "iadd": ast.Add, "isub": ast.Sub, "imul": ast.Mult, "itruediv": ast.Div, "ifloordiv": ast.FloorDiv}


def detabulate(tree):
    imp = _imports(tree)
    stats = [0]

    def pure(e):
        if isinstance(e, (ast.Constant, ast.Name, ast.Lambda)):
            return True
        if isinstance(e, ast.Attribute):
            return pure(e.value)
        if isinstance(e, (ast.Tuple, ast.List)):
            return all(pure(x) for x in e.elts)
        if isinstance(e, ast.Call):
            q = _qual(e.func, imp, set())
            return q in ("operator.methodcaller", "operator.attrgetter", "functools.partial") and all(pure(a) for a in e.args) and not e.keywords
        return False

    def rows_of(e):
        if isinstance(e, (ast.Tuple, ast.List)) and e.elts and all(pure(x) for x in e.elts):
            return list(e.elts)
        return None

    # module-level and class-level tables (bound exactly once, never stored to again anywhere in the module)
    stores = {}
    for n in ast.walk(tree):
        if isinstance(n, ast.Name) and isinstance(n.ctx, (ast.Store, ast.Del)):
            stores[n.id] = stores.get(n.id, 0) + 1
    mod_tables = {}
    for st in tree.body:
        if isinstance(st, ast.Assign) and len(st.targets) == 1 and isinstance(st.targets[0], ast.Name) and stores.get(st.targets[0].id) == 1:
            v = st.value
            if isinstance(v, ast.Subscript) and isinstance(v.value, ast.Name) and v.value.id in mod_tables and isinstance(v.slice, ast.Slice) and v.slice.step is None:
                lo = v.slice.lower.value if isinstance(v.slice.lower, ast.Constant) else (None if v.slice.lower is None else "?")
                hi = v.slice.upper.value if isinstance(v.slice.upper, ast.Constant) else (None if v.slice.upper is None else "?")
                if lo != "?" and hi != "?":
                    mod_tables[st.targets[0].id] = mod_tables[v.value.id][lo:hi]
                continue
            r = rows_of(v)
            if r is not None:
                mod_tables[st.targets[0].id] = r
    cls_tables = {}
    for c in ast.walk(tree):
        if isinstance(c, ast.ClassDef):
            for st in c.body:
                if isinstance(st, ast.Assign) and len(st.targets) == 1 and isinstance(st.targets[0], ast.Name):
                    r = rows_of(st.value)
                    nm = st.targets[0].id
                    if r is not None and nm.startswith("_") and not any(isinstance(x, ast.Attribute) and x.attr == nm and isinstance(x.ctx, ast.Store) for x in ast.walk(tree)):
                        cls_tables[nm] = r

    # class-level private scalar constants read through self / cls
    cls_consts = {}
    for c in ast.walk(tree):
        if isinstance(c, ast.ClassDef):
            for st in c.body:
                if isinstance(st, ast.Assign) and len(st.targets) == 1 and isinstance(st.targets[0], ast.Name) and isinstance(st.value, ast.Constant) and isinstance(st.value.value, str):
                    nm = st.targets[0].id
                    if nm.startswith("_") and not nm.startswith("__") and not any(isinstance(x, ast.Attribute) and x.attr == nm and isinstance(x.ctx, ast.Store) for x in ast.walk(tree)) and sum(1 for k in ast.walk(tree) if isinstance(k, ast.ClassDef) for s2 in k.body if isinstance(s2, ast.Assign) and any(isinstance(t, ast.Name) and t.id == nm for t in s2.targets)) == 1:
                        cls_consts[nm] = st.value

    def table(e, local):
        if isinstance(e, ast.Name):
            if e.id in local:
                return local[e.id]
            return mod_tables.get(e.id)
        if isinstance(e, ast.Attribute) and isinstance(e.value, ast.Name) and e.value.id in ("self", "cls") and e.attr in cls_tables:
            return cls_tables[e.attr]
        if isinstance(e, ast.Call) and isinstance(e.func, ast.Name) and e.func.id == "zip" and len(e.args) == 2 and not e.keywords:
            a, b = (table(x, local) or rows_of(x) for x in e.args)
            if a is not None and b is not None and len(a) == len(b):
                return [ast.Tuple(elts=[x, y], ctx=ast.Load()) for x, y in zip(a, b)]
            return None
        return rows_of(e) if isinstance(e, (ast.Tuple, ast.List)) and all(isinstance(x, (ast.Tuple, ast.List)) for x in e.elts) else None

    def bind(target, row):
        """{name: expr} for one row, None when the shapes do not match"""
        if isinstance(target, ast.Name):
            return {target.id: row}
        if isinstance(target, (ast.Tuple, ast.List)) and isinstance(row, (ast.Tuple, ast.List)) and sum(isinstance(t, ast.Starred) for t in target.elts) == 1 and isinstance(target.elts[-1], ast.Starred) and isinstance(target.elts[-1].value, ast.Name) and len(row.elts) >= len(target.elts) - 1:
            # a, *rest = row
            k = len(target.elts) - 1
            out = {}
            for t, r in zip(target.elts[:k], row.elts[:k]):
                sub = bind(t, r)
                if sub is None:
                    return None
                out.update(sub)
            out[target.elts[-1].value.id] = ast.Tuple(elts=list(row.elts[k:]), ctx=ast.Load())
            return out
        if isinstance(target, (ast.Tuple, ast.List)) and isinstance(row, (ast.Tuple, ast.List)) and len(target.elts) == len(row.elts) and not any(isinstance(t, ast.Starred) for t in target.elts):
            out = {}
            for t, r in zip(target.elts, row.elts):
                sub = bind(t, r)
                if sub is None:
                    return None
                out.update(sub)
            return out
        return None

    def subst(node, env):
        class S(ast.NodeTransformer):
            def visit_Name(self, n):
                if isinstance(n.ctx, ast.Load) and n.id in env:
                    return ast.copy_location(copy.deepcopy(env[n.id]), n)
                return n

            def visit_Lambda(self, n):
                inner = {k: v for k, v in env.items() if k not in {a.arg for a in n.args.args + n.args.kwonlyargs}}
                n.body = subst(n.body, inner)
                return n

        return S().visit(copy.deepcopy(node))

    def jumps(stmts):
        """Break / Continue statements belonging to THIS loop level"""
        out = []

        def rec(ss):
            for s in ss:
                if isinstance(s, (ast.Break, ast.Continue)):
                    out.append(s)
                elif isinstance(s, (ast.For, ast.AsyncFor, ast.While)):
                    rec(s.orelse)
                elif isinstance(s, (ast.FunctionDef, ast.AsyncFunctionDef, ast.ClassDef)):
                    pass
                else:
                    for f in ("body", "orelse", "finalbody"):
                        rec(getattr(s, f, []) or [])
                    for h in getattr(s, "handlers", []) or []:
                        rec(h.body)
                    for c in getattr(s, "cases", []) or []:
                        rec(c.body)

        rec(stmts)
        return out

    def unroll(loop, rows, fn):
        envs = [bind(loop.target, r) for r in rows]
        if any(e is None for e in envs):
            return None
        tnames = set(envs[0])
        if any(isinstance(n, ast.Name) and n.id in tnames and isinstance(n.ctx, (ast.Store, ast.Del)) for s in loop.body for n in ast.walk(s)):
            return None
        # targets read after the loop keep the value of the row that was left by break / of the last row
        inside = {id(n) for s in loop.body + loop.orelse for n in ast.walk(s)} | {id(n) for n in ast.walk(loop.target)}
        used_outside = {n.id for n in ast.walk(fn) if isinstance(n, ast.Name) and n.id in tnames and id(n) not in inside and isinstance(n.ctx, ast.Load)}

        def keep(env):
            return [ast.copy_location(ast.Assign(targets=[ast.Name(id=k, ctx=ast.Store())], value=copy.deepcopy(env[k])), loop) for k in sorted(used_outside)]

        js = jumps(loop.body)
        if not js:
            out = []
            for env in envs:
                out += keep(env) + [subst(s, env) for s in loop.body]
            return out + list(loop.orelse)
        if len(loop.body) == 1 and isinstance(loop.body[0], ast.If) and not loop.body[0].orelse:
            inner = loop.body[0]
            last = inner.body[-1]
            if len(js) == 1 and js[0] is last and isinstance(last, ast.Break):
                chain = list(loop.orelse)
                for env in reversed(envs):
                    body = keep(env) + [subst(s, env) for s in inner.body[:-1]] or [ast.copy_location(ast.Pass(), inner)]
                    chain = [ast.copy_location(ast.If(test=subst(inner.test, env), body=body, orelse=chain), inner)]
                return chain
        return None

    def unroll_returning(loop, rows):
        # `for ...: if C: ...; return X` (no break / continue): the if / elif chain, falling through to what follows
        if len(loop.body) == 1 and isinstance(loop.body[0], ast.If) and not loop.body[0].orelse and isinstance(loop.body[0].body[-1], (ast.Return, ast.Raise)) and not jumps(loop.body):
            envs = [bind(loop.target, r) for r in rows]
            if any(e is None for e in envs):
                return None
            inner = loop.body[0]
            chain = list(loop.orelse)
            for env in reversed(envs):
                chain = [ast.copy_location(ast.If(test=subst(inner.test, env), body=[subst(s, env) for s in inner.body], orelse=chain), inner)]
            return chain
        return None

    # private module-level drivers `def _f(rules, a, b): for x, y in rules: ...` called with a table: read in place
    drivers = {}
    for st in tree.body:
        if isinstance(st, ast.FunctionDef) and st.name.startswith("_") and not st.decorator_list and not st.args.vararg and not st.args.kwarg and not st.args.kwonlyargs and not st.args.defaults:
            body = [b for b in st.body if not (isinstance(b, ast.Expr) and isinstance(b.value, ast.Constant))]
            params = [a.arg for a in st.args.args]
            if body and isinstance(body[0], ast.For) and isinstance(body[0].iter, ast.Name) and body[0].iter.id in params and (len(body) == 1 or (len(body) == 2 and isinstance(body[1], ast.Return))):
                if not any(isinstance(n, ast.Name) and n.id in params and isinstance(n.ctx, ast.Store) for n in ast.walk(st)):
                    drivers[st.name] = (params, body)

    def expand_driver(st):
        if isinstance(st, ast.Return) and isinstance(st.value, ast.Call) and isinstance(st.value.func, ast.Name) and st.value.func.id in drivers and not st.value.keywords:
            params, body = drivers[st.value.func.id]
            args = st.value.args
            if len(args) == len(params) and all(isinstance(a, (ast.Name, ast.Constant)) or (isinstance(a, ast.Attribute) and isinstance(a.value, ast.Name)) for a in args):
                env = dict(zip(params, args))
                it = env[body[0].iter.id]
                if isinstance(it, ast.Name) and it.id in mod_tables:
                    new = [subst(b, env) for b in body]
                    if len(body) == 1:
                        new.append(ast.copy_location(ast.Return(value=ast.Constant(value=None)), st))
                    return new
        return None

    def do_block(stmts, local, fn):
        out = []
        for st in stmts:
            exp = expand_driver(st) if fn is not None else None
            if exp is not None:
                stats[0] += 1
                out += do_block(exp, local, fn)
                continue
            if isinstance(st, ast.Assign) and len(st.targets) == 1 and isinstance(st.targets[0], ast.Name) and fn is not None:
                r = rows_of(st.value)
                nm = st.targets[0].id
                binds = [n for n in ast.walk(fn) if isinstance(n, ast.Name) and n.id == nm and isinstance(n.ctx, (ast.Store, ast.Del))]
                if r is not None and len(binds) == 1 and all(isinstance(x, (ast.Tuple, ast.List)) for x in r):
                    local = dict(local)
                    local[nm] = r
            if isinstance(st, ast.For) and fn is not None:
                rows = table(st.iter, local)
                if rows is not None:
                    new = unroll_returning(st, rows) or unroll(st, rows, fn)
                    if new is not None:
                        stats[0] += 1
                        out += do_block(new, local, fn)
                        continue
            for f in ("body", "orelse", "finalbody"):
                if isinstance(getattr(st, f, None), list) and not isinstance(st, (ast.FunctionDef, ast.AsyncFunctionDef, ast.ClassDef)):
                    setattr(st, f, do_block(getattr(st, f), local, fn))
            for h in getattr(st, "handlers", []) or []:
                h.body = do_block(h.body, local, fn)
            if isinstance(st, (ast.FunctionDef, ast.AsyncFunctionDef)):
                st.body = do_block(st.body, {}, st)
            elif isinstance(st, ast.ClassDef):
                st.body = do_block(st.body, {}, None)
            out.append(st)
        return out

    tree.body = do_block(tree.body, {}, None)

    # comprehensions over tables -> displays
    class Comp(ast.NodeTransformer):
        def generic_comp(self, node):
            self.generic_visit(node)
            if len(node.generators) != 1 or node.generators[0].ifs or node.generators[0].is_async:
                return node
            rows = table(node.generators[0].iter, {})
            if rows is None:
                return node
            envs = [bind(node.generators[0].target, r) for r in rows]
            if any(e is None for e in envs):
                return node
            stats[0] += 1
            if isinstance(node, ast.DictComp):
                new = ast.Dict(keys=[subst(node.key, e) for e in envs], values=[subst(node.value, e) for e in envs])
            elif isinstance(node, ast.SetComp):
                new = ast.Set(elts=[subst(node.elt, e) for e in envs])
            else:
                new = ast.List(elts=[subst(node.elt, e) for e in envs], ctx=ast.Load()) if isinstance(node, ast.ListComp) else ast.Tuple(elts=[subst(node.elt, e) for e in envs], ctx=ast.Load())
            return ast.copy_location(new, node)

        visit_DictComp = visit_ListComp = visit_SetComp = generic_comp

        def visit_GeneratorExp(self, node):
            return self.generic_comp(node)

    Comp().visit(tree)

    # small spellings the substitution leaves behind
    class Tidy(ast.NodeTransformer):
        def visit_Dict(self, node):
            self.generic_visit(node)
            if any(k is None and isinstance(v, ast.Dict) and None not in v.keys for k, v in zip(node.keys, node.values)):
                keys, vals = [], []
                for k, v in zip(node.keys, node.values):
                    if k is None and isinstance(v, ast.Dict) and None not in v.keys:
                        keys += v.keys
                        vals += v.values
                    else:
                        keys.append(k)
                        vals.append(v)
                node.keys, node.values = keys, vals
                stats[0] += 1
            return node

        def visit_Call(self, node):
            self.generic_visit(node)
            # f(**{"a": x}) -> f(a=x)
            if any(k.arg is None and isinstance(k.value, ast.Dict) and k.value.keys and all(isinstance(x, ast.Constant) and isinstance(x.value, str) and x.value.isidentifier() for x in k.value.keys) for k in node.keywords):
                kws = []
                for k in node.keywords:
                    if k.arg is None and isinstance(k.value, ast.Dict) and k.value.keys and all(isinstance(x, ast.Constant) and isinstance(x.value, str) and x.value.isidentifier() for x in k.value.keys):
                        kws += [ast.keyword(arg=x.value, value=v) for x, v in zip(k.value.keys, k.value.values)]
                    else:
                        kws.append(k)
                node.keywords = kws
                stats[0] += 1
            if any(isinstance(a, ast.Starred) and isinstance(a.value, (ast.Tuple, ast.List)) and not any(isinstance(x, ast.Starred) for x in a.value.elts) for a in node.args):
                args = []
                for a in node.args:
                    if isinstance(a, ast.Starred) and isinstance(a.value, (ast.Tuple, ast.List)) and not any(isinstance(x, ast.Starred) for x in a.value.elts):
                        args += a.value.elts
                    else:
                        args.append(a)
                node.args = args
                stats[0] += 1
            q = _qual(node.func, imp, set())
            if isinstance(node.func, ast.Name) and node.func.id == "getattr" and len(node.args) == 2 and not node.keywords and isinstance(node.args[1], ast.Constant) and isinstance(node.args[1].value, str) and node.args[1].value.isidentifier():
                stats[0] += 1
                return ast.copy_location(ast.Attribute(value=node.args[0], attr=node.args[1].value, ctx=ast.Load()), node)
            if q and q.startswith("operator.") and q.split(".")[1] in _ARITH and len(node.args) == 2 and not node.keywords:
                stats[0] += 1
                return ast.copy_location(ast.BinOp(left=node.args[0], op=_ARITH[q.split(".")[1]](), right=node.args[1]), node)
            if isinstance(node.func, ast.Call) and _qual(node.func.func, imp, set()) == "operator.methodcaller" and node.func.args and isinstance(node.func.args[0], ast.Constant) and isinstance(node.func.args[0].value, str) and len(node.args) == 1 and not node.keywords:
                stats[0] += 1
                return ast.copy_location(ast.Call(func=ast.Attribute(value=node.args[0], attr=node.func.args[0].value, ctx=ast.Load()), args=list(node.func.args[1:]), keywords=list(node.func.keywords)), node)
            return node

        def visit_Expr(self, node):
            self.generic_visit(node)
            c = node.value
            if isinstance(c, ast.Call) and isinstance(c.func, ast.Name) and c.func.id == "setattr" and len(c.args) == 3 and not c.keywords and isinstance(c.args[1], ast.Constant) and isinstance(c.args[1].value, str) and c.args[1].value.isidentifier():
                stats[0] += 1
                return ast.copy_location(ast.Assign(targets=[ast.Attribute(value=c.args[0], attr=c.args[1].value, ctx=ast.Store())], value=c.args[2]), node)
            return node

    # (lambda a, b, **_: E)(**d) with d = dict(a=x, ...) [; d.update(b=y, ...)] used for nothing else  ->  E[x/a, y/b]
    for fn in [n for n in ast.walk(tree) if isinstance(n, (ast.FunctionDef, ast.AsyncFunctionDef))]:
        for st in list(fn.body):
            if isinstance(st, ast.Assign) and len(st.targets) == 1 and isinstance(st.targets[0], ast.Name) and isinstance(st.value, ast.Call) and isinstance(st.value.func, ast.Name) and st.value.func.id == "dict" and not st.value.args and st.value.keywords and all(k.arg for k in st.value.keywords):
                d = st.targets[0].id
                vals = {k.arg: k.value for k in st.value.keywords}
                uses = [n for n in ast.walk(fn) if isinstance(n, ast.Name) and n.id == d and n is not st.targets[0]]
                ok_uses = set()
                lam_calls = []
                for n in ast.walk(fn):
                    if isinstance(n, ast.Expr) and isinstance(n.value, ast.Call) and isinstance(n.value.func, ast.Attribute) and n.value.func.attr == "update" and isinstance(n.value.func.value, ast.Name) and n.value.func.value.id == d and not n.value.args and all(k.arg for k in n.value.keywords):
                        vals.update({k.arg: k.value for k in n.value.keywords})
                        ok_uses.add(id(n.value.func.value))
                    if isinstance(n, ast.Call) and isinstance(n.func, ast.Lambda) and not n.args and len(n.keywords) == 1 and n.keywords[0].arg is None and isinstance(n.keywords[0].value, ast.Name) and n.keywords[0].value.id == d:
                        lam_calls.append(n)
                        ok_uses.add(id(n.keywords[0].value))
                if not lam_calls or any(id(u) not in ok_uses for u in uses) or not all(isinstance(v, (ast.Name, ast.Constant)) for v in vals.values()):
                    continue

                class L(ast.NodeTransformer):
                    def visit_Call(self, n):
                        self.generic_visit(n)
                        if n in lam_calls:
                            a = n.func.args
                            names = [x.arg for x in a.args + a.kwonlyargs]
                            if a.vararg or a.defaults or any(x is not None for x in a.kw_defaults) or not all(x in vals for x in names) or (a.kwarg is None and set(vals) - set(names)):
                                return n
                            body = n.func.body
                            for x in names:
                                body = _subst_name(body, x, vals[x])
                            stats[0] += 1
                            return ast.copy_location(body, n)
                        return n

                L().visit(fn)

    if stats[0]:
        if cls_consts:
            class Consts(ast.NodeTransformer):
                def visit_Attribute(self, node):
                    self.generic_visit(node)
                    if isinstance(node.ctx, ast.Load) and isinstance(node.value, ast.Name) and node.value.id in ("self", "cls") and node.attr in cls_consts:
                        return ast.copy_location(copy.deepcopy(cls_consts[node.attr]), node)
                    return node

            Consts().visit(tree)
        Tidy().visit(tree)
        ast.fix_missing_locations(tree)
    return stats[0]


# ------------------------------------------------------------------------------------------------------------------
# `async for` / `async with` spelled out as their protocol calls (PEP 492) are read as the statements they are:
#
#     it = X.__aiter__()                          mgr = E
#     while True:                                 v = await mgr.__aenter__()
#         try: t = await it.__anext__()           try: BODY
#         except StopAsyncIteration: break        except BaseException [as e]:
#         BODY                                        if not await mgr.__aexit__(type(e), e, e.__traceback__): raise
#     ->  async for t in X: BODY                  else: await mgr.__aexit__(None, None, None)
#                                                 ->  async with E as v: BODY
#
# also with the dunder looked up on the type (`type(o).__anext__(o)`) or through a local alias of it, and
# `*sys.exc_info()` for the three exception arguments.  The helper variables must be used for nothing else.
def resugar_async(tree):
    n_done = [0]

    def dunder_call(e, obj, name, aliases):
        """the argument list of obj.<name>(...) in one of its spellings, else None"""
        if not isinstance(e, ast.Call) or e.keywords:
            return None
        f = e.func
        if isinstance(f, ast.Attribute) and f.attr == name:
            if isinstance(f.value, ast.Name) and f.value.id == obj:
                return list(e.args)
            if isinstance(f.value, ast.Call) and isinstance(f.value.func, ast.Name) and f.value.func.id == "type" and len(f.value.args) == 1 and isinstance(f.value.args[0], ast.Name) and f.value.args[0].id == obj and e.args and isinstance(e.args[0], ast.Name) and e.args[0].id == obj:
                return list(e.args[1:])
        if isinstance(f, ast.Name) and aliases.get(f.id) == (obj, name) and e.args and isinstance(e.args[0], ast.Name) and e.args[0].id == obj:
            return list(e.args[1:])
        return None

    def uses(fn, name):
        return sum(1 for n in ast.walk(fn) if isinstance(n, ast.Name) and n.id == name)

    def exc_args_ok(args, exc_name):
        if len(args) == 1 and isinstance(args[0], ast.Starred) and isinstance(args[0].value, ast.Call) and _dotted(args[0].value.func) == "sys.exc_info":
            return True
        if len(args) == 3 and exc_name:
            a, b, c = args
            return isinstance(a, ast.Call) and isinstance(a.func, ast.Name) and a.func.id == "type" and len(a.args) == 1 and isinstance(a.args[0], ast.Name) and a.args[0].id == exc_name and isinstance(b, ast.Name) and b.id == exc_name and isinstance(c, ast.Attribute) and c.attr == "__traceback__" and isinstance(c.value, ast.Name) and c.value.id == exc_name
        return False

    def block(stmts, fn):
        out = []
        i = 0
        while i < len(stmts):
            st = stmts[i]
            # ---- async for
            if isinstance(st, ast.Assign) and len(st.targets) == 1 and isinstance(st.targets[0], ast.Name) and i + 1 < len(stmts) and isinstance(stmts[i + 1], ast.While) and fn is not None:
                it = st.targets[0].id
                src = None
                v = st.value
                if isinstance(v, ast.Call) and not v.keywords:
                    if isinstance(v.func, ast.Attribute) and v.func.attr == "__aiter__" and not v.args:
                        src = v.func.value
                    elif isinstance(v.func, ast.Attribute) and v.func.attr == "__aiter__" and isinstance(v.func.value, ast.Call) and len(v.args) == 1:
                        src = v.args[0]
                    elif isinstance(v.func, ast.Name) and v.func.id == "aiter" and len(v.args) == 1:
                        src = v.args[0]
                w = stmts[i + 1]
                if src is not None and isinstance(w.test, ast.Constant) and w.test.value is True and not w.orelse and w.body and isinstance(w.body[0], ast.Try):
                    t = w.body[0]
                    if len(t.body) == 1 and isinstance(t.body[0], ast.Assign) and len(t.body[0].targets) == 1 and isinstance(t.body[0].value, ast.Await) and not t.orelse and not t.finalbody and len(t.handlers) == 1 and _dotted(t.handlers[0].type) == "StopAsyncIteration" and len(t.handlers[0].body) == 1 and isinstance(t.handlers[0].body[0], ast.Break):
                        nxt = t.body[0].value.value
                        args = dunder_call(nxt, it, "__anext__", {})
                        if args is None and isinstance(nxt, ast.Call) and isinstance(nxt.func, ast.Name) and nxt.func.id == "anext" and len(nxt.args) == 1 and isinstance(nxt.args[0], ast.Name) and nxt.args[0].id == it:
                            args = []
                        if args == [] and uses(fn, it) == 2:
                            new = ast.AsyncFor(target=t.body[0].targets[0], iter=src, body=block(w.body[1:], fn) or [ast.Pass()], orelse=[], type_comment=None)
                            ast.copy_location(new, w)
                            out.append(new)
                            n_done[0] += 1
                            i += 2
                            continue
            # ---- async with
            if isinstance(st, ast.Assign) and len(st.targets) == 1 and isinstance(st.targets[0], ast.Name) and fn is not None and i + 2 < len(stmts):
                mgr = st.targets[0].id
                j = i + 1
                aliases = {}
                enter = None
                var = None
                while j < len(stmts) and isinstance(stmts[j], ast.Assign) and len(stmts[j].targets) == 1 and isinstance(stmts[j].targets[0], ast.Name):
                    a = stmts[j]
                    if isinstance(a.value, ast.Attribute) and a.value.attr in ("__aexit__", "__aenter__") and isinstance(a.value.value, ast.Call) and isinstance(a.value.value.func, ast.Name) and a.value.value.func.id == "type" and len(a.value.value.args) == 1 and isinstance(a.value.value.args[0], ast.Name) and a.value.value.args[0].id == mgr:
                        aliases[a.targets[0].id] = (mgr, a.value.attr)
                        j += 1
                        continue
                    if isinstance(a.value, ast.Await) and dunder_call(a.value.value, mgr, "__aenter__", aliases) == []:
                        enter = a
                        var = a.targets[0]
                        j += 1
                        # an alias may also follow the enter
                        continue
                    break
                if enter is not None and j < len(stmts) and isinstance(stmts[j], ast.Try):
                    t = stmts[j]
                    h = t.handlers[0] if len(t.handlers) == 1 else None
                    good = h is not None and _dotted(h.type) == "BaseException" and not t.finalbody and len(t.orelse) == 1 and len(h.body) == 1
                    if good:
                        e = t.orelse[0]
                        good = isinstance(e, ast.Expr) and isinstance(e.value, ast.Await) and (lambda a: a is not None and len(a) == 3 and all(isinstance(x, ast.Constant) and x.value is None for x in a))(dunder_call(e.value.value, mgr, "__aexit__", aliases))
                    if good:
                        c = h.body[0]
                        good = isinstance(c, ast.If) and not c.orelse and len(c.body) == 1 and isinstance(c.body[0], ast.Raise) and c.body[0].exc is None and isinstance(c.test, ast.UnaryOp) and isinstance(c.test.op, ast.Not) and isinstance(c.test.operand, ast.Await)
                        if good:
                            a = dunder_call(c.test.operand.value, mgr, "__aexit__", aliases)
                            good = a is not None and exc_args_ok(a, h.name)
                    expected_uses = 1 + sum(1 for n in ast.walk(ast.Module(body=stmts[i + 1 : j + 1], type_ignores=[])) if isinstance(n, ast.Name) and n.id == mgr and n not in [x for s in t.body for x in ast.walk(s)])
                    if good and uses(fn, mgr) == expected_uses and not any(isinstance(n, ast.Name) and n.id == mgr for s in t.body for n in ast.walk(s)):
                        new = ast.AsyncWith(items=[ast.withitem(context_expr=st.value, optional_vars=ast.Name(id=var.id, ctx=ast.Store()))], body=block(t.body, fn), type_comment=None)
                        ast.copy_location(new, t)
                        out.append(new)
                        n_done[0] += 1
                        i = j + 1
                        continue
            for f in ("body", "orelse", "finalbody"):
                if isinstance(getattr(st, f, None), list) and getattr(st, f) and isinstance(getattr(st, f)[0], ast.stmt):
                    inner_fn = st if isinstance(st, (ast.FunctionDef, ast.AsyncFunctionDef)) else (None if isinstance(st, ast.ClassDef) else fn)
                    setattr(st, f, block(getattr(st, f), inner_fn))
            for h in getattr(st, "handlers", []) or []:
                h.body = block(h.body, fn)
            out.append(st)
            i += 1
        return out

    tree.body = block(tree.body, None)
    if n_done[0]:
        ast.fix_missing_locations(tree)
    return n_done[0]
