"""
Semantics-preserving normalisation of the parsed program, applied before indexing.

One pattern only -- the *bulk helper*:

    def _release_children(self, children):        # a private method whose whole body is one loop over its
        for child in children:                    # only parameter, with no break / continue / return / yield
            BODY

is read as

    def _release_children(self, children):
        for child in children:
            self._release_children__each(child)

    def _release_children__each(self, child):
        BODY

and, inside the same class, a call statement that hands it a one-element display or a (lazily consumed) generator
expression is read as the loop it is:

    self._release_children((child,))                          ->   self._release_children__each(child)
    self._release_children(c for c in src if cond)            ->   for c in src:
                                                                       if cond:
                                                                           self._release_children__each(c)

Both readings execute the same statements in the same order on the same objects (a generator handed to a function whose
body is exactly `for x in arg: ...` is advanced once per iteration, its filter evaluated right before the body), so the
rules, which are written for the per-element helper, decide the same behaviour.  New nodes carry the positions of the
nodes they come from, so reports still point into the file.
"""

import ast
import copy

SUFFIX = "__each"


def _no_escape(body):
    """no break / continue / return / yield that would leave the loop body (nested loops may break for themselves)"""

    def walk(stmts, in_loop):
        for st in stmts:
            for n in ast.iter_child_nodes(st):
                pass
            if isinstance(st, (ast.Return,)):
                return False
            if isinstance(st, (ast.Break, ast.Continue)) and not in_loop:
                return False
            if isinstance(st, (ast.FunctionDef, ast.AsyncFunctionDef, ast.ClassDef)):
                continue
            for x in ast.walk(st) if not isinstance(st, (ast.For, ast.While, ast.If, ast.With, ast.Try)) else []:
                if isinstance(x, (ast.Yield, ast.YieldFrom, ast.Await)):
                    return False
            for field in ("body", "orelse", "finalbody"):
                sub = getattr(st, field, None)
                if isinstance(sub, list) and sub and isinstance(sub[0], ast.stmt):
                    if not walk(sub, in_loop or isinstance(st, (ast.For, ast.While))):
                        return False
            for h in getattr(st, "handlers", []) or []:
                if not walk(h.body, in_loop):
                    return False
        return True

    if any(isinstance(x, (ast.Yield, ast.YieldFrom, ast.Await)) for st in body for x in ast.walk(st)):
        return False
    return walk(body, False)


def _bulk_helper(fn):
    """(loop, parameter name) when fn is a bulk helper, else None"""
    if not isinstance(fn, ast.FunctionDef) or not fn.name.startswith("_") or fn.name.startswith("__") or fn.decorator_list:
        return None
    a = fn.args
    if a.vararg or a.kwarg or a.kwonlyargs or a.posonlyargs or a.defaults or len(a.args) != 2 or a.args[0].arg != "self":
        return None
    body = list(fn.body)
    if body and isinstance(body[0], ast.Expr) and isinstance(body[0].value, ast.Constant) and isinstance(body[0].value.value, str):
        body = body[1:]
    if len(body) != 1 or not isinstance(body[0], ast.For) or body[0].orelse:
        return None
    loop = body[0]
    p = a.args[1].arg
    if not (isinstance(loop.iter, ast.Name) and loop.iter.id == p) or not isinstance(loop.target, ast.Name):
        return None
    if any(isinstance(n, ast.Name) and n.id == p for st in loop.body for n in ast.walk(st)):
        return None
    if loop.target.id in ("self", p) or not _no_escape(loop.body):
        return None
    # the loop variable is not rebound in the body (the per-element function gets it as its parameter)
    if any(isinstance(n, ast.Name) and n.id == loop.target.id and isinstance(n.ctx, (ast.Store, ast.Del)) for st in loop.body for n in ast.walk(st)):
        return None
    return loop, p


def _each_call(at, name, arg):
    call = ast.Call(func=ast.Attribute(value=ast.Name(id="self", ctx=ast.Load()), attr=name + SUFFIX, ctx=ast.Load()), args=[arg], keywords=[])
    st = ast.Expr(value=call)
    for n in ast.walk(st):
        ast.copy_location(n, at)
    return st


def normalise_class(cls_node):
    """rewrite the bulk helpers of one class in place; returns the names of the helpers that were split"""
    helpers = {}
    for st in cls_node.body:
        found = _bulk_helper(st) if isinstance(st, ast.FunctionDef) else None
        if found and not any(isinstance(o, ast.FunctionDef) and o.name == st.name + SUFFIX for o in cls_node.body):
            helpers[st.name] = (st, found[0], found[1])
    if not helpers:
        return []
    # the helper must only ever be CALLED (a reference handed around could be called with anything)
    for name in list(helpers):
        for n in ast.walk(cls_node):
            if isinstance(n, ast.Attribute) and n.attr == name:
                pass
        calls = {id(n.func) for n in ast.walk(cls_node) if isinstance(n, ast.Call) and isinstance(n.func, ast.Attribute) and n.func.attr == name}
        refs = [n for n in ast.walk(cls_node) if isinstance(n, ast.Attribute) and n.attr == name and id(n) not in calls]
        if refs:
            del helpers[name]
    new_defs = []
    for name, (fn, loop, _p) in helpers.items():
        each = ast.FunctionDef(
            name=name + SUFFIX,
            args=ast.arguments(posonlyargs=[], args=[ast.arg(arg="self"), ast.arg(arg=loop.target.id)], vararg=None, kwonlyargs=[], kw_defaults=[], kwarg=None, defaults=[]),
            body=loop.body,
            decorator_list=[],
            returns=None,
            type_comment=None,
        )
        if hasattr(each, "type_params"):
            each.type_params = []
        ast.copy_location(each, loop)
        for a in each.args.args:
            ast.copy_location(a, loop)
        loop.body = [_each_call(loop, name, ast.copy_location(ast.Name(id=loop.target.id, ctx=ast.Load()), loop))]
        new_defs.append((fn, each))
    for fn, each in new_defs:
        cls_node.body.insert(cls_node.body.index(fn) + 1, each)

    # call statements inside the class
    class Sites(ast.NodeTransformer):
        def visit_Expr(self, st):
            c = st.value
            if not (isinstance(c, ast.Call) and isinstance(c.func, ast.Attribute) and c.func.attr in helpers and isinstance(c.func.value, ast.Name) and c.func.value.id == "self" and len(c.args) == 1 and not c.keywords):
                return st
            name = c.func.attr
            arg = c.args[0]
            if isinstance(arg, (ast.Tuple, ast.List)) and len(arg.elts) == 1 and not isinstance(arg.elts[0], ast.Starred):
                return _each_call(st, name, arg.elts[0])
            if isinstance(arg, ast.GeneratorExp) and not any(g.is_async for g in arg.generators):
                inner = [_each_call(st, name, arg.elt)]
                for g in reversed(arg.generators):
                    for cond in reversed(g.ifs):
                        inner = [ast.copy_location(ast.If(test=cond, body=inner, orelse=[]), st)]
                    inner = [ast.copy_location(ast.For(target=copy.deepcopy(g.target), iter=g.iter, body=inner, orelse=[], type_comment=None), st)]
                    for n in ast.walk(inner[0].target):
                        if isinstance(n, (ast.Name, ast.Tuple, ast.List, ast.Starred)):
                            n.ctx = ast.Store()
                return inner[0]
            return st

    for st in cls_node.body:
        if isinstance(st, (ast.FunctionDef, ast.AsyncFunctionDef)) and not st.name.endswith(SUFFIX):
            # the generator's variables become locals of the enclosing function: only when nothing else there has their name
            gen_names = {
                n.id
                for c in ast.walk(st)
                if isinstance(c, ast.Call) and isinstance(c.func, ast.Attribute) and c.func.attr in helpers and len(c.args) == 1 and isinstance(c.args[0], ast.GeneratorExp)
                for g in c.args[0].generators
                for n in ast.walk(g.target)
                if isinstance(n, ast.Name)
            }
            inside = {id(n) for c in ast.walk(st) if isinstance(c, ast.GeneratorExp) for n in ast.walk(c)}
            clash = any(isinstance(n, ast.Name) and n.id in gen_names and id(n) not in inside for n in ast.walk(st)) or any(a.arg in gen_names for a in ast.walk(st) if isinstance(a, ast.arg))
            if not clash:
                Sites().visit(st)
    return sorted(helpers)


def normalise_module(tree):
    done = []
    for n in ast.walk(tree):
        if isinstance(n, ast.ClassDef):
            done += ["%s.%s" % (n.name, h) for h in normalise_class(n)]
    if done:
        ast.fix_missing_locations(tree)
    return done
