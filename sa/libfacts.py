"""
Trusted library facts (DESIGN.md 2.4) and their static cross-read.

Nothing here imports or runs trio / yaml / asyncio: where the fact is visible in an
installed source file, that file is *parsed* and the frozen fact compared.
"""
import ast
import builtins
import os
import sysconfig

# frozen: exception class -> direct base (qualified by the name the package uses)
FROZEN_EXC_BASES = {
    "ext:asyncio.CancelledError": "ext:builtins.BaseException",
    "ext:asyncio.InvalidStateError": "ext:builtins.Exception",
    "ext:trio.Cancelled": "ext:builtins.BaseException",
    "ext:trio.RunFinishedError": "ext:builtins.RuntimeError",
    "ext:trio.ClosedResourceError": "ext:builtins.Exception",
    "ext:trio.BrokenResourceError": "ext:builtins.Exception",
    "ext:trio.BusyResourceError": "ext:builtins.Exception",
    "ext:trio.WouldBlock": "ext:builtins.Exception",
    "ext:trio.EndOfChannel": "ext:builtins.Exception",
    "ext:trio.TrioInternalError": "ext:builtins.Exception",
    "ext:yaml.YAMLError": "ext:builtins.Exception",
    # representatives (E4)
    "rep:AnyException": "ext:builtins.Exception",
    "rep:OtherBase": "ext:builtins.BaseException",
}

# names that are the SAME class object (Python >= 3.11); checked against the running interpreter below
EXC_ALIASES = {
    "ext:concurrent.futures.TimeoutError": "ext:builtins.TimeoutError",
    "ext:concurrent.futures._base.TimeoutError": "ext:builtins.TimeoutError",
    "ext:asyncio.TimeoutError": "ext:builtins.TimeoutError",
    "ext:asyncio.exceptions.TimeoutError": "ext:builtins.TimeoutError",
    "ext:concurrent.futures.CancelledError": "ext:concurrent.futures._base.CancelledError",
    "ext:socket.timeout": "ext:builtins.TimeoutError",
    "ext:builtins.IOError": "ext:builtins.OSError",
    "ext:builtins.EnvironmentError": "ext:builtins.OSError",
}


def canon_exc(qual):
    return EXC_ALIASES.get(qual, qual)


UNSAFE_YAML_LOADERS = {"Loader", "UnsafeLoader", "FullLoader", "CLoader", "CUnsafeLoader", "CFullLoader", "BaseLoader", "CBaseLoader"}
SAFE_YAML_LOADERS = {"SafeLoader", "CSafeLoader"}
UNSAFE_YAML_CALLS = {"load", "load_all", "unsafe_load", "unsafe_load_all", "full_load", "full_load_all"}


def _site_packages():
    for cand in (
        "/venv/lib/python3.12/site-packages",
        sysconfig.get_paths().get("purelib", ""),
    ):
        if cand and os.path.isdir(cand):
            return cand
    return None


def _parse(path):
    try:
        with open(path, encoding="utf-8") as f:
            return ast.parse(f.read())
    except (OSError, SyntaxError):
        return None


_cache = {}


def cross_read():
    """returns {fact name: {'frozen': ..., 'confirmed': True|False|None}} (None = source absent)"""
    if "facts" in _cache:
        return _cache["facts"]
    facts = {}
    sp = _site_packages()
    # --- trio exception hierarchy
    tree = _parse(os.path.join(sp, "trio/_core/_exceptions.py")) if sp else None
    for name in ("Cancelled", "RunFinishedError", "ClosedResourceError", "BrokenResourceError"):
        frozen = FROZEN_EXC_BASES["ext:trio." + name].split(".")[-1]
        confirmed = None
        if tree is not None:
            for n in tree.body:
                if isinstance(n, ast.ClassDef) and n.name == name:
                    bases = [getattr(b, "id", getattr(b, "attr", None)) for b in n.bases]
                    confirmed = frozen in bases
        facts["trio.%s subclasses %s" % (name, frozen)] = confirmed
    # --- trio.from_thread.run raises a bare RuntimeError inside the trio thread
    tree = _parse(os.path.join(sp, "trio/_threads.py")) if sp else None
    confirmed = None
    if tree is not None:
        confirmed = False
        for n in ast.walk(tree):
            if isinstance(n, ast.Raise) and isinstance(n.exc, ast.Call) and getattr(n.exc.func, "id", None) == "RuntimeError":
                if n.exc.args and isinstance(n.exc.args[0], ast.Constant) and "blocking function" in str(n.exc.args[0].value):
                    confirmed = True
    facts["trio.from_thread.run raises bare RuntimeError when called in the trio thread"] = confirmed
    # --- trio.from_thread.run refuses (bare RuntimeError) in ANY thread that is running a trio task, whichever run it is
    tree = _parse(os.path.join(sp, "trio/_threads.py")) if sp else None
    confirmed = None
    if tree is not None:
        confirmed = False
        for n in ast.walk(tree):
            if isinstance(n, ast.Try) and any(isinstance(c, ast.Call) and ast.unparse(c.func).endswith("current_task") for b in n.body for c in ast.walk(b)):
                if any(isinstance(r, ast.Raise) and "blocking function" in ast.unparse(r) for b in n.orelse for r in ast.walk(b)):
                    confirmed = True
    facts["trio.from_thread.run raises its bare RuntimeError whenever the calling thread runs ANY trio task (current_task() succeeds), not only in the target run's thread"] = confirmed
    # --- leaving a `with` block on a trio memory channel closes that end
    tree = _parse(os.path.join(sp, "trio/_channel.py")) if sp else None
    confirmed = None
    if tree is not None:
        confirmed = False
        for n in tree.body:
            if isinstance(n, ast.ClassDef) and n.name == "MemorySendChannel":
                for m in n.body:
                    if isinstance(m, ast.FunctionDef) and m.name == "__exit__":
                        confirmed = any(isinstance(c, ast.Call) and isinstance(c.func, ast.Attribute) and c.func.attr == "close" for c in ast.walk(m))
    facts["trio.MemorySendChannel.__exit__ closes the channel"] = confirmed
    # --- asyncio.Future.set_exception refuses a StopIteration (TypeError inside the caller)
    stdlib = sysconfig.get_paths().get("stdlib", "")
    tree = _parse(os.path.join(stdlib, "asyncio/futures.py")) if stdlib else None
    confirmed = None
    if tree is not None:
        confirmed = False
        for n in ast.walk(tree):
            if isinstance(n, ast.FunctionDef) and n.name == "set_exception":
                for t in ast.walk(n):
                    if isinstance(t, ast.If) and "StopIteration" in ast.unparse(t.test) and any(isinstance(r, ast.Raise) and "TypeError" in ast.unparse(r) for r in ast.walk(t)):
                        confirmed = True
    facts["asyncio.Future.set_exception raises TypeError for a StopIteration"] = confirmed
    # --- concurrent.futures.Future.result() tests the stored exception for TRUTH before raising it
    tree = _parse(os.path.join(stdlib, "concurrent/futures/_base.py")) if stdlib else None
    confirmed = None
    if tree is not None:
        confirmed = False
        for n in ast.walk(tree):
            if isinstance(n, ast.FunctionDef) and "get_result" in n.name:
                for t in ast.walk(n):
                    if isinstance(t, ast.If) and isinstance(t.test, ast.Attribute) and t.test.attr == "_exception":
                        confirmed = True
    facts["concurrent.futures.Future.result raises the stored exception only if it is truthy"] = confirmed
    # --- yaml loaders
    tree = _parse(os.path.join(sp, "yaml/loader.py")) if sp else None
    confirmed = None
    if tree is not None:
        confirmed = False
        for n in tree.body:
            if isinstance(n, ast.ClassDef) and n.name == "SafeLoader":
                bases = [getattr(b, "id", None) for b in n.bases]
                confirmed = "SafeConstructor" in bases and "Constructor" not in bases and "FullConstructor" not in bases
    facts["yaml.SafeLoader constructs through SafeConstructor only"] = confirmed
    tree = _parse(os.path.join(sp, "yaml/constructor.py")) if sp else None
    confirmed = None
    tags = []
    if tree is not None:
        confirmed = True
        for n in ast.walk(tree):
            if (
                isinstance(n, ast.Call)
                and isinstance(n.func, ast.Attribute)
                and n.func.attr in ("add_constructor", "add_multi_constructor")
                and getattr(n.func.value, "id", None) == "SafeConstructor"
            ):
                tag = n.args[0] if n.args else None
                if isinstance(tag, ast.Constant) and tag.value is None:
                    tags.append(None)
                elif isinstance(tag, ast.Constant) and str(tag.value).startswith("tag:yaml.org,2002:") and "python" not in str(tag.value):
                    tags.append(tag.value)
                else:
                    confirmed = False
                if n.func.attr == "add_multi_constructor":
                    confirmed = False
        if not tags:
            confirmed = False
    facts["yaml.SafeConstructor registers only tag:yaml.org,2002:* tags plus the rejecting None entry (%d tags read)" % len(tags)] = confirmed
    # --- asyncio.run joins the default executor
    std = sysconfig.get_paths().get("stdlib")
    tree = _parse(os.path.join(std, "asyncio/runners.py")) if std else None
    confirmed = None
    if tree is not None:
        confirmed = any(
            isinstance(n, ast.Attribute) and n.attr == "shutdown_default_executor" for n in ast.walk(tree)
        )
    facts["asyncio.run (Runner.close) joins the default executor"] = confirmed
    # --- concurrent.futures.TimeoutError / asyncio.TimeoutError are the builtin TimeoutError
    for mod, rel in (("concurrent.futures", "concurrent/futures/_base.py"), ("asyncio", "asyncio/exceptions.py")):
        tree = _parse(os.path.join(std, rel)) if std else None
        confirmed = None
        if tree is not None:
            confirmed = any(
                isinstance(n, ast.Assign) and any(getattr(t, "id", None) == "TimeoutError" for t in n.targets) and getattr(n.value, "id", None) == "TimeoutError" for n in tree.body
            ) or not any(isinstance(n, ast.ClassDef) and n.name == "TimeoutError" for n in tree.body)
        facts["%s.TimeoutError is the builtin TimeoutError" % mod] = confirmed
    _cache["facts"] = facts
    return facts


def exc_bases(qual, program=None):
    """direct bases of an exception class given by qualified name"""
    qual = canon_exc(qual)
    if qual == "ext:concurrent.futures._base.CancelledError":
        return ["ext:builtins.Exception"]
    if qual in FROZEN_EXC_BASES:
        return [FROZEN_EXC_BASES[qual]]
    if program is not None and qual in program.classes:
        return list(program.classes[qual].bases)
    if qual.startswith("ext:builtins."):
        obj = getattr(builtins, qual.split(".", 1)[1], None)
        if isinstance(obj, type) and issubclass(obj, BaseException) and obj is not BaseException:
            return ["ext:builtins." + b.__name__ for b in obj.__bases__]
    return []


def exc_mro(qual, program=None):
    out, todo = [], [qual]
    while todo:
        q = canon_exc(todo.pop(0))
        if q in out:
            continue
        out.append(q)
        todo.extend(exc_bases(q, program))
    return out


def is_exception_class(qual, program=None):
    return "ext:builtins.BaseException" in exc_mro(qual, program)


def yaml_merge_skips_tags():
    """does the installed SafeConstructor.flatten_mapping splice the CONTENT of a merge value (`<<: value`) into the
    mapping without ever constructing the value node itself -- so that the tag of that node is never dispatched to a
    constructor (and never rejected)?  True / False from a static read of yaml/constructor.py, None if it is absent
    (the frozen fact is True: PyYAML 5.x / 6.x)"""
    sp = _site_packages()
    tree = _parse(os.path.join(sp, "yaml/constructor.py")) if sp else None
    if tree is None:
        return None
    for n in ast.walk(tree):
        if isinstance(n, ast.FunctionDef) and n.name == "flatten_mapping":
            src = ast.unparse(n)
            dispatches = any(isinstance(c, ast.Call) and isinstance(c.func, ast.Attribute) and c.func.attr in ("construct_object", "construct_document", "construct_undefined") for c in ast.walk(n)) or ".tag not in" in src or "yaml_constructors" in src
            splices = "value_node.value" in src or "subnode.value" in src
            return splices and not dispatches
    return None


def yaml_tag_skipping_consumers():
    """{consumer: True|False|None}: places where the installed SafeConstructor uses a child node of a collection WITHOUT
    constructing it (so the child's tag is never dispatched, not even to the rejecting catch-all), and whether every node of
    a document is composed through Composer.compose_node (the one place a loader can look at each node's tag).
    True = confirmed by reading the installed source, None = source absent"""
    sp = _site_packages()
    out = {}
    tree = _parse(os.path.join(sp, "yaml/constructor.py")) if sp else None
    names = {"construct_scalar (the value of a `=` key)": "construct_scalar", "construct_yaml_omap (the one-pair mappings of !!omap)": "construct_yaml_omap", "construct_yaml_pairs (the one-pair mappings of !!pairs)": "construct_yaml_pairs"}
    for label, fn in names.items():
        ok = None
        if tree is not None:
            ok = False
            for c in tree.body:
                if isinstance(c, ast.ClassDef) and c.name == "SafeConstructor":
                    for m in c.body:
                        if isinstance(m, ast.FunctionDef) and m.name == fn:
                            src = ast.unparse(m)
                            if fn == "construct_scalar":
                                ok = "tag:yaml.org,2002:value" in src and "construct_scalar(value_node)" in src
                            else:
                                ok = "subnode.value[0]" in src and "construct_object(subnode" not in src
        out[label] = ok
    tree = _parse(os.path.join(sp, "yaml/composer.py")) if sp else None
    ok = None
    if tree is not None:
        src = ast.unparse(tree)
        ok = "self.compose_node(None, None)" in src and "self.compose_node(node, index)" in src and "self.compose_node(node, None)" in src and "self.compose_node(node, item_key)" in src
    out["Composer composes the root, every sequence item, every mapping key and value through compose_node(parent, index); a key has index None"] = ok
    return out
