"""Command line driver: evaluates the obligations of one property (or all) on /repo's working tree."""
import argparse
import ast as _ast
import importlib
import json
import os
import sys
import time
import traceback

HERE = os.path.dirname(os.path.abspath(__file__))
sys.path.insert(0, os.path.dirname(HERE))

from sa import interp, report  # noqa: E402
from sa.index import Program  # noqa: E402
from sa.report import AnchorMissing, Check, Undecided  # noqa: E402

ALL = ["C%02d" % i for i in range(1, 20)]


UNBOUND_CONTROL = """
def compute(x):
    return x

def bad3():
    return not_defined_anywhere

def bad(x):
    try:
        y = compute(x)
    except ValueError:
        pass
    return y

def bad2(flag):
    if flag:
        z = 1
    return z

def good(flag, xs):
    if flag:
        z = 1
    for x in xs:
        last = x
    if flag:
        return z
    return last
"""


def _unbound_control(program):
    """positive / negative control of O0.1 (expected count on the real tree is zero)"""
    import ast as _ast

    from sa import query
    from sa.index import FuncInfo

    m = query.adhoc_module(program, UNBOUND_CONTROL)
    boom = interp.exc_value("ext:builtins.ValueError", "control")
    for st in m.tree.body:
        if isinstance(st, _ast.FunctionDef):
            fi = FuncInfo("<control>:" + st.name, st, m)
            hook = lambda it, path, ct, node: [("raise", boom), ("value", ("sym", "r"))] if ct[0] == "call" and "compute" in str(ct[1]) else None  # noqa: E731
            interp.Interp(program, fi, call_hook=hook).run()
    got = {k for k in interp.UNBOUND_READS if k[0].startswith("<control>:")}
    return got == {("<control>:bad", "y"), ("<control>:bad2", "z"), ("<control>:bad3", "not_defined_anywhere")}


def _anchor_files(pid):
    try:
        with open(os.path.join(os.path.dirname(HERE), "properties.jsonl")) as f:
            for line in f:
                d = json.loads(line)
                if d.get("id") == pid:
                    return list(d.get("anchors", {}).get("files", []))
    except (OSError, ValueError):
        pass
    return []


ATTR_CONTROL = """
class K:
    kind = 1
    def __init__(self):
        self.a = 1
    def ok(self):
        return self.a + self.kind + self.ok2()
    def ok2(self):
        return 0
    def bad(self):
        return self.missing
"""


def _unresolved_self_reads(program, funcs, stored_anywhere):
    """(FuncInfo, attribute node) for reads `self.x` where no class of the MRO defines, assigns or slots x"""
    out = []
    n = 0
    for fi in funcs:
        if fi.cls is None or fi.is_static or fi.is_classmethod:
            continue
        a = fi.node.args
        pos = a.posonlyargs + a.args
        if not pos:
            continue
        first = pos[0].arg
        if any(program.lookup_method(fi.cls, d) is not None for d in ("__getattr__", "__getattribute__")):
            continue
        for x in _ast.walk(fi.node):
            if isinstance(x, _ast.Attribute) and isinstance(x.value, _ast.Name) and x.value.id == first and isinstance(x.ctx, _ast.Load):
                n += 1
                if program.has_attr(fi.cls, x.attr) is False and x.attr not in stored_anywhere:
                    out.append((fi, x))
    return out, n


def _attribute_check(pid, program, chk):
    """O0.2 (every property): in the property's anchor files every read `self.x` names something the class hierarchy
    defines or assigns; a deleted initialisation otherwise only shows as AttributeError at run time"""
    from sa import query
    from sa.index import ClassInfo, FuncInfo

    # positive control
    m = query.adhoc_module(program, ATTR_CONTROL)
    try:
        cnode = m.tree.body[0]
        ctl_prog_cls = None
        for q, c in program.classes.items():
            ctl_prog_cls = c
            break
        ci = ClassInfo.__new__(ClassInfo)
        ci.__dict__.update(ctl_prog_cls.__dict__)
        ci.qual, ci.node, ci.module, ci.mro, ci.bases = "<control>:K", cnode, m, ["<control>:K", "ext:builtins.object"], ["ext:builtins.object"]
        ci.methods, ci.class_attrs, ci.fields = {}, {"kind": cnode.body[0].value}, {"a": [cnode.body[1].body[0]]}
        fis = []
        for st in cnode.body:
            if isinstance(st, _ast.FunctionDef):
                f = FuncInfo("<control>:K." + st.name, st, m, cls=ci)
                ci.methods[st.name] = [f]
                fis.append(f)
        program.classes["<control>:K"] = ci
        try:
            got, _n = _unresolved_self_reads(program, fis, set())
        finally:
            del program.classes["<control>:K"]
        if [(f.name, x.attr) for f, x in got] != [("bad", "missing")]:
            raise ValueError(got)
    except Exception as e:  # the control itself failed: the rule cannot be trusted
        chk.undecided("O0.2", "<positive control>", "the attribute-resolution rule does not behave as expected on its control example (%s)" % e)
        return
    files = set(_anchor_files(pid)) if chk.tier != "thorough" else {".py"}
    stored = set()
    for mod in program.modules.values():
        for x in _ast.walk(mod.tree):
            if isinstance(x, _ast.Attribute) and isinstance(x.ctx, _ast.Store) and not (isinstance(x.value, _ast.Name) and x.value.id == "self"):
                stored.add(x.attr)
            if isinstance(x, _ast.Call) and getattr(x.func, "id", None) == "setattr" and len(x.args) >= 2:
                if isinstance(x.args[1], _ast.Constant):
                    stored.add(x.args[1].value)
                else:
                    return  # dynamic attribute names: the rule does not apply
    funcs = [fi for fi in program.functions.values() if any((getattr(fi.module, "relpath", "") or "").endswith(f) for f in files)]
    bad, n = _unresolved_self_reads(program, funcs, stored)
    chk.count(n)
    chk.facts["O0.2 self-attribute reads resolved in the anchor files"] = n
    if not bad:
        chk.ok("O0.2", "<anchor files>", "%d reads of self.<attr> all name something the class hierarchy defines or assigns" % n)
    for fi, x in bad:
        chk.bad("O0.2", fi.qual, "self.%s is read here, but no class in the hierarchy of %s defines or assigns it (AttributeError at run time): the code this property rests on cannot run" % (x.attr, fi.cls.qual.split(":")[-1]), node=x, stmt="unresolved self.%s" % x.attr)


SHARED_CONTROL = """
class K:
    table = {}
    ok_table = {}
    registry = set()
    def __init__(self):
        self.ok_table = {}
    def put(self, k, v):
        self.table[k] = v
        self.ok_table[k] = v
    @classmethod
    def register(cls, x):
        cls.registry.add(x)
"""
_MUTATORS = {"add", "append", "extend", "insert", "update", "setdefault", "pop", "popitem", "remove", "discard", "clear", "appendleft", "sort", "reverse"}
_MUTABLE_CTORS = {"dict", "list", "set", "WeakSet", "WeakValueDictionary", "WeakKeyDictionary", "deque", "defaultdict", "OrderedDict", "Counter", "bytearray"}


def _shared_mutable_sites(class_node):
    """(attribute, node) for a mutable object created in the class body that a method mutates through `self` although
    no constructor path re-binds it per instance"""
    from sa import util as _util

    attrs = {}
    for st in class_node.body:
        tg = st.targets if isinstance(st, _ast.Assign) else [st.target] if isinstance(st, _ast.AnnAssign) and st.value is not None else []
        v = getattr(st, "value", None)
        if v is None:
            continue
        mutable = isinstance(v, (_ast.Dict, _ast.List, _ast.Set)) or (isinstance(v, _ast.Call) and (_util.dotted(v.func) or "").split(".")[-1] in _MUTABLE_CTORS)
        for t in tg:
            if isinstance(t, _ast.Name) and mutable:
                attrs[t.id] = st
    out = []
    init = next((f for f in class_node.body if isinstance(f, _ast.FunctionDef) and f.name == "__init__"), None)
    rebound = set()
    if init is not None:
        for st in init.body:  # top-level statements of __init__: bound on every path
            for t in (st.targets if isinstance(st, _ast.Assign) else [st.target] if isinstance(st, (_ast.AnnAssign, _ast.AugAssign)) else []):
                for x in ([t] if not isinstance(t, (_ast.Tuple, _ast.List)) else t.elts):
                    if isinstance(x, _ast.Attribute) and isinstance(x.value, _ast.Name) and x.value.id == "self":
                        rebound.add(x.attr)
    for f in class_node.body:
        if not isinstance(f, (_ast.FunctionDef, _ast.AsyncFunctionDef)):
            continue
        for n in _ast.walk(f):
            a = None
            if isinstance(n, _ast.Call) and isinstance(n.func, _ast.Attribute) and n.func.attr in _MUTATORS:
                d = _util.dotted(n.func.value) or ""
                if d.startswith("self.") and d.count(".") == 1:
                    a = d.split(".")[1]
            elif isinstance(n, (_ast.Assign, _ast.AugAssign, _ast.Delete)):
                for t in n.targets if isinstance(n, (_ast.Assign, _ast.Delete)) else [n.target]:
                    if isinstance(t, _ast.Subscript):
                        d = _util.dotted(t.value) or ""
                        if d.startswith("self.") and d.count(".") == 1:
                            a = d.split(".")[1]
                    elif isinstance(n, _ast.AugAssign) and isinstance(t, _ast.Attribute) and isinstance(t.value, _ast.Name) and t.value.id == "self" and isinstance(n.op, (_ast.BitOr, _ast.BitAnd, _ast.Sub, _ast.Add, _ast.BitXor)) and f.name != "__init__" or (isinstance(n, _ast.AugAssign) and isinstance(t, _ast.Attribute) and isinstance(t.value, _ast.Name) and t.value.id == "self" and t.attr in attrs and not any(isinstance(p, _ast.Assign) and any(isinstance(pt, _ast.Attribute) and pt.attr == t.attr and isinstance(pt.value, _ast.Name) and pt.value.id == "self" for pt in p.targets) and p.lineno < n.lineno for p in _ast.walk(f))):
                        # self.s |= other  on a set / list / dict made in the class body mutates THAT object in place
                        if t.attr in attrs:
                            a = t.attr
                            if f.name == "__init__" and a in rebound:
                                rebound_before = any(isinstance(p, _ast.Assign) and p.lineno < n.lineno and any(isinstance(pt, _ast.Attribute) and pt.attr == a for pt in p.targets) for p in f.body)
                                if not rebound_before:
                                    out.append((a, n, f.name))
                                    a = None
            if a in attrs and a not in rebound:
                out.append((a, n, f.name))
    # state written on the CLASS from an instance method:  TrioRunner._token = x  /  type(self)._weight = w
    cname = class_node.name
    for f in class_node.body:
        if not isinstance(f, (_ast.FunctionDef, _ast.AsyncFunctionDef)) or any(isinstance(d, _ast.Name) and d.id == "classmethod" for d in f.decorator_list):
            continue
        for n in _ast.walk(f):
            if isinstance(n, (_ast.Assign, _ast.AugAssign)):
                for t in n.targets if isinstance(n, _ast.Assign) else [n.target]:
                    if isinstance(t, _ast.Attribute):
                        b = t.value
                        on_class = (isinstance(b, _ast.Name) and b.id == cname) or (isinstance(b, _ast.Call) and isinstance(b.func, _ast.Name) and b.func.id == "type" and len(b.args) == 1 and isinstance(b.args[0], _ast.Name) and b.args[0].id == "self") or (isinstance(b, _ast.Attribute) and b.attr == "__class__" and isinstance(b.value, _ast.Name) and b.value.id == "self")
                        if on_class:
                            out.append((t.attr, n, f.name + " (class attribute)"))
    # a descriptor that keeps the value on ITSELF: one descriptor object serves every instance of the owner class
    setter = next((f for f in class_node.body if isinstance(f, _ast.FunctionDef) and f.name == "__set__" and len(f.args.args) >= 3), None)
    if setter is not None:
        for n in _ast.walk(setter):
            if isinstance(n, (_ast.Assign, _ast.AugAssign)):
                for t in n.targets if isinstance(n, _ast.Assign) else [n.target]:
                    if isinstance(t, _ast.Attribute) and isinstance(t.value, _ast.Name) and t.value.id == "self":
                        out.append((t.attr, n, "__set__ (descriptor)"))
    return out


def _shared_state_check(pid, program, chk):
    """O0.3 (every property): no method mutates, through `self`, a mutable object that was created once in the class
    body and is never re-bound per instance -- every instance of the class would share (and extend) that one object"""
    from sa import query

    m = query.adhoc_module(program, SHARED_CONTROL)
    got = [(a, fn) for a, _n, fn in _shared_mutable_sites(m.tree.body[0])]
    if got != [("table", "put")]:
        chk.undecided("O0.3", "<positive control>", "the shared-state rule does not behave as expected on its control example: %s" % got)
        return
    files = set(_anchor_files(pid)) if chk.tier != "thorough" else {".py"}
    n = 0
    for cls in program.classes.values():
        rel = getattr(cls.module, "relpath", "") or ""
        if not any(rel.endswith(f) for f in files):
            continue
        n += 1
        for a, node, fn in _shared_mutable_sites(cls.node):
            if fn.endswith("(class attribute)"):
                chk.bad("O0.3", cls.qual + "." + fn.split(" ")[0], "%s stores %s on the CLASS %s (not on the instance): every instance -- every runtime, pool or formatter of the process -- shares the value written last" % (fn.split(" ")[0], a, cls.qual.split(":")[-1]), node=node, stmt="class-level-store %s" % a)
            elif fn.endswith("(descriptor)"):
                chk.bad("O0.3", cls.qual + ".__set__", "the descriptor %s keeps the assigned value on itself (self.%s) instead of on the instance it is set for: all instances of the owner class share the value written last" % (cls.qual.split(":")[-1], a), node=node, stmt="descriptor-self-store %s" % a)
            else:
                chk.bad("O0.3", cls.qual + "." + fn, "%s mutates self.%s, a mutable object created once in the body of class %s and never re-bound in its constructor: all instances share (and extend) that one object" % (fn, a, cls.qual.split(":")[-1]), node=node, stmt="shared-mutable %s" % a)
    chk.count(n)
    if not any(ob.rule == "O0.3" for ob in chk.obs):
        chk.ok("O0.3", "<anchor files>", "%d classes: no mutable object of a class body is mutated through self without being re-bound per instance" % n)
    chk.facts["O0.3 classes of the anchor files examined for shared mutable class state"] = n


DEFAULT_CONTROL = """
class Box:
    def __init__(self, items=[], names=(), queue: dict = {}, helper=Helper(), label=None):
        self.items = items
        self.names = names
        self.label = label
        self.helper = helper
        queue.setdefault('k', 1)
    def ok(self, extra=None, found=[]):
        extra = extra or []
        extra.append(1)
        return len(found)
"""


def _shared_default_sites(program, module, fn_node, classes_mutable=True):
    """(parameter, node, what) for every parameter of fn_node whose default is ONE object made when the function is
    defined -- a mutable display / container call, or an instance of a package class -- and that the function keeps
    (stores on self or into a container) or mutates: every call that omits the argument shares that one object"""
    from sa import util as _util

    a = fn_node.args
    pos = a.posonlyargs + a.args
    pairs = list(zip(pos[len(pos) - len(a.defaults):], a.defaults)) + [(x, d) for x, d in zip(a.kwonlyargs, a.kw_defaults) if d is not None]
    out = []
    for arg, d in pairs:
        kind = None
        if isinstance(d, (_ast.Dict, _ast.List, _ast.Set, _ast.ListComp, _ast.SetComp, _ast.DictComp)):
            kind = "a mutable %s display" % type(d).__name__.lower()
        elif isinstance(d, _ast.Call):
            q = program.resolve(module, d.func) or ""
            if q.split(".")[-1] in _MUTABLE_CTORS or q in ("ext:weakref.WeakSet", "ext:weakref.WeakValueDictionary", "ext:weakref.WeakKeyDictionary"):
                kind = "one %s()" % q.split(".")[-1]
            elif q in program.classes and not any(b.startswith("ext:builtins.") and b.split(".")[-1] in ("Exception", "BaseException") or "Error" in b for b in program.classes[q].mro):
                kind = "one instance of %s" % q.split(":")[-1]
        if kind is None:
            continue
        name = arg.arg
        if any(isinstance(n, _ast.Name) and n.id == name and isinstance(n.ctx, (_ast.Store, _ast.Del)) for n in _ast.walk(fn_node)):
            continue  # re-bound somewhere: not followed
        for n in _ast.walk(fn_node):
            if isinstance(n, (_ast.Assign, _ast.AnnAssign)) and isinstance(getattr(n, "value", None), _ast.Name) and n.value.id == name:
                tgs = n.targets if isinstance(n, _ast.Assign) else [n.target]
                if any(isinstance(t, (_ast.Attribute, _ast.Subscript)) for t in tgs):
                    out.append((name, n, "%s is kept (%s) -- the default is %s created when the function is defined" % (name, _util.unparse(tgs[0]), kind)))
            elif isinstance(n, _ast.Call) and isinstance(n.func, _ast.Attribute) and n.func.attr in _MUTATORS and isinstance(n.func.value, _ast.Name) and n.func.value.id == name:
                out.append((name, n, "%s.%s(...) mutates the default, which is %s created when the function is defined" % (name, n.func.attr, kind)))
            elif isinstance(n, (_ast.Assign, _ast.AugAssign, _ast.Delete)):
                for t in n.targets if isinstance(n, (_ast.Assign, _ast.Delete)) else [n.target]:
                    if isinstance(t, _ast.Subscript) and isinstance(t.value, _ast.Name) and t.value.id == name:
                        out.append((name, n, "%s[...] is written: the default is %s created when the function is defined" % (name, kind)))
    return out


def _shared_default_check(pid, program, chk):
    """O0.4 (every property): no function keeps or mutates a default argument that is one mutable object / one instance
    of a package class made at definition time -- all calls (and all instances) that omit the argument would share it"""
    from sa import query

    m = query.adhoc_module(program, DEFAULT_CONTROL + "\nclass Helper:\n    pass\n")
    program.classes.setdefault("<control>:Helper", None)
    got = []
    try:
        import types

        fake = types.SimpleNamespace(mro=["<control>:Helper"])
        program.classes["<control>:Helper"] = fake
        for fn in m.tree.body[0].body:
            got += [(p, type(n).__name__) for p, n, _w in _shared_default_sites(program, m, fn)]
    finally:
        program.classes.pop("<control>:Helper", None)
    if sorted(got) != [("helper", "Assign"), ("items", "Assign"), ("queue", "Call")]:
        chk.undecided("O0.4", "<positive control>", "the shared-default rule does not behave as expected on its control example: %s" % sorted(got))
        return
    files = set(_anchor_files(pid)) if chk.tier != "thorough" else {".py"}
    n = 0
    for fi in list(program.functions.values()):
        rel = getattr(fi.module, "relpath", "") or ""
        if not any(rel.endswith(f) for f in files):
            continue
        n += 1
        for pname, node, what in _shared_default_sites(program, fi.module, fi.node):
            chk.bad("O0.4", fi.qual, "%s: every call that omits `%s` -- and with it every instance built that way -- shares that object" % (what, pname), node=node, stmt="shared-default %s" % pname)
    chk.count(n)
    if not any(ob.rule == "O0.4" for ob in chk.obs):
        chk.ok("O0.4", "<anchor files>", "%d functions: no default argument that is one mutable object / package instance is kept or mutated" % n)
    chk.facts["O0.4 functions of the anchor files examined for shared default arguments"] = n


LATE_CONTROL = """
def build(slaves, rules):
    table = []
    for demand, slave in slaves:
        table.append((demand, lambda interval: slave.regulate(interval)))       # late: every entry calls the LAST slave
    ok = [(d, lambda interval, slave=slave: slave.regulate(interval)) for d, slave in slaves]
    wrapped = [(s, lambda pool: rule(pool)) for s, rule in rules]               # late, in a comprehension
    for d, s in slaves:
        best = min(rules, key=lambda r: r[0] - d)                                # used at once: fine
    return table, ok, wrapped, best

def twice(children):
    hit = (c for c in sorted(children) if c.demand > 0)
    excess = sum(c.demand for c in hit)
    for c in hit:
        excess -= c.demand
    fine = [c for c in children]
    a = sum(c.demand for c in fine)
    for c in fine:
        a -= c.demand
    return excess, a
"""


def _late_binding_sites(fn_node):
    """lambdas / nested functions created in a loop or comprehension that read the loop variable when they are CALLED
    (no default-argument binding) and are kept for later (put into a display that is stored / appended / returned)"""
    out = []
    par = {}
    for p in _ast.walk(fn_node):
        for c in _ast.iter_child_nodes(p):
            par[id(c)] = p

    def loop_vars_of(node):
        vs = set()
        x = par.get(id(node))
        while x is not None and x is not fn_node:
            if isinstance(x, (_ast.For, _ast.AsyncFor)):
                vs |= {n.id for n in _ast.walk(x.target) if isinstance(n, _ast.Name)}
            if isinstance(x, (_ast.ListComp, _ast.SetComp, _ast.DictComp, _ast.GeneratorExp)):
                for g in x.generators:
                    vs |= {n.id for n in _ast.walk(g.target) if isinstance(n, _ast.Name)}
            x = par.get(id(x))
        return vs

    for lam in _ast.walk(fn_node):
        if not isinstance(lam, (_ast.Lambda, _ast.FunctionDef)) or lam is fn_node:
            continue
        lv = loop_vars_of(lam)
        if not lv:
            continue
        params = {a.arg for a in lam.args.args + lam.args.kwonlyargs + lam.args.posonlyargs} | ({lam.args.vararg.arg} if lam.args.vararg else set()) | ({lam.args.kwarg.arg} if lam.args.kwarg else set())
        body_nodes = [lam.body] if isinstance(lam, _ast.Lambda) else lam.body
        free = {n.id for b in body_nodes for n in _ast.walk(b) if isinstance(n, _ast.Name) and isinstance(n.ctx, _ast.Load)} - params
        late = sorted(free & lv)
        if not late:
            continue
        # kept for later: an element of a tuple / list / dict display, or appended / stored / returned / yielded itself;
        # handed directly to a call (key=..., map, filter, sorted) it is used before the loop moves on
        up = par.get(id(lam))
        kept = False
        if isinstance(lam, _ast.FunctionDef):
            # a nested def: kept if its name is appended / stored / returned inside the loop
            uses = [n for n in _ast.walk(fn_node) if isinstance(n, _ast.Name) and n.id == lam.name and isinstance(n.ctx, _ast.Load)]
            for u in uses:
                pu = par.get(id(u))
                if isinstance(pu, (_ast.Tuple, _ast.List, _ast.Dict, _ast.Return, _ast.Yield)) or (isinstance(pu, _ast.Call) and u in pu.args and isinstance(pu.func, _ast.Attribute) and pu.func.attr in ("append", "add", "setdefault", "insert", "extend", "add_constructor")) or (isinstance(pu, _ast.Assign) and isinstance(pu.targets[0], (_ast.Attribute, _ast.Subscript))) or (isinstance(pu, _ast.keyword) and pu.arg in ("constructor", "callback", "target")):
                    kept = True
        else:
            if isinstance(up, (_ast.Tuple, _ast.List, _ast.Dict, _ast.Set)) or (isinstance(up, _ast.Call) and lam in up.args and isinstance(up.func, _ast.Attribute) and up.func.attr in ("append", "add", "setdefault", "insert")) or (isinstance(up, _ast.Assign) and isinstance(up.targets[0], (_ast.Attribute, _ast.Subscript))) or isinstance(up, (_ast.Return, _ast.Yield)) or (isinstance(up, (_ast.ListComp, _ast.SetComp, _ast.GeneratorExp)) and up.elt is lam) or (isinstance(up, _ast.DictComp) and up.value is lam):
                kept = True
        if kept:
            out.append((lam, late))
    return out


_ONE_SHOT = {"reversed", "map", "filter", "zip", "iter", "enumerate"}


def _consumed_twice_sites(fn_node):
    """a local bound once to a one-shot iterator (a generator expression, reversed / map / filter / zip / iter) that is
    consumed more than once -- the second consumer finds it exhausted"""
    out = []
    for st in _ast.walk(fn_node):
        if isinstance(st, _ast.Assign) and len(st.targets) == 1 and isinstance(st.targets[0], _ast.Name):
            v = st.value
            one_shot = isinstance(v, _ast.GeneratorExp) or (isinstance(v, _ast.Call) and isinstance(v.func, _ast.Name) and v.func.id in _ONE_SHOT)
            if not one_shot:
                continue
            nm = st.targets[0].id
            binds = [n for n in _ast.walk(fn_node) if isinstance(n, _ast.Name) and n.id == nm and isinstance(n.ctx, (_ast.Store, _ast.Del))]
            if len(binds) != 1:
                continue
            consumers = []
            for n in _ast.walk(fn_node):
                if isinstance(n, (_ast.For, _ast.AsyncFor)) and isinstance(n.iter, _ast.Name) and n.iter.id == nm:
                    consumers.append(n)
                elif isinstance(n, _ast.comprehension) and isinstance(n.iter, _ast.Name) and n.iter.id == nm:
                    consumers.append(n)
                elif isinstance(n, _ast.Call) and isinstance(n.func, _ast.Name) and n.func.id in ("sum", "any", "all", "list", "tuple", "set", "sorted", "min", "max", "dict", "frozenset", "len") and any(isinstance(a, _ast.Name) and a.id == nm for a in n.args):
                    consumers.append(n)
            def branch_path(node):
                # the chain of (If node, arm) pairs above a node
                chain = []
                def rec(cur, acc):
                    if cur is node:
                        chain.extend(acc)
                        return True
                    for field, val in _ast.iter_fields(cur):
                        items = val if isinstance(val, list) else [val]
                        for it in items:
                            if isinstance(it, _ast.AST):
                                nxt = acc + [(id(cur), field)] if isinstance(cur, (_ast.If, _ast.Try, _ast.IfExp)) and field in ("body", "orelse", "handlers") else acc
                                if rec(it, nxt):
                                    return True
                    return False
                rec(fn_node, [])
                return chain

            def exclusive(a, b):
                pa, pb = dict(branch_path(a)), dict(branch_path(b))
                return any(k in pb and pb[k] != arm for k, arm in pa.items())

            pairs = [(a, b) for i, a in enumerate(consumers) for b in consumers[i + 1:] if not exclusive(a, b)]
            if pairs:
                out.append((nm, pairs[0][1], v))
    return out


def _closure_iterator_check(pid, program, chk):
    """O0.5 (every property): no lambda / nested function that is kept for later reads a loop variable late;
    O0.6: no one-shot iterator bound to a local is consumed twice"""
    tree = _ast.parse(LATE_CONTROL)
    late = [(sorted(v), getattr(l, "lineno", 0)) for f in tree.body if f.name == "build" for l, v in _late_binding_sites(f)]
    twice = [nm for f in tree.body if f.name == "twice" for nm, _n, _v in _consumed_twice_sites(f)]
    if sorted(v for v, _l in late) != [["rule"], ["slave"]] or twice != ["hit"]:
        chk.undecided("O0.5", "<positive control>", "the late-binding / consumed-twice rules do not behave as expected on their control example: %s %s" % (late, twice))
        return
    files = set(_anchor_files(pid)) if chk.tier != "thorough" else {".py"}
    n = 0
    for fi in list(program.functions.values()):
        rel = getattr(fi.module, "relpath", "") or ""
        if not any(rel.endswith(f) for f in files) or fi.parent is not None:
            continue
        n += 1
        for lam, names in _late_binding_sites(fi.node):
            chk.bad("O0.5", fi.qual, "a %s created in a loop is kept for later but reads the loop variable(s) %s only when it is called: every one of them then sees the value of the LAST iteration (bind it as a default argument)" % ("function" if isinstance(lam, _ast.FunctionDef) else "lambda", names), node=lam, stmt="late-binding %s" % ",".join(names))
        for nm, node, v in _consumed_twice_sites(fi.node):
            chk.bad("O0.6", fi.qual, "%s is a one-shot iterator (%s) but is consumed more than once: the second consumer finds it exhausted and does nothing" % (nm, type(v).__name__ if not isinstance(v, _ast.Call) else v.func.id + "(...)"), node=node, stmt="consumed-twice %s" % nm)
    chk.count(n)
    if not any(ob.rule in ("O0.5", "O0.6") for ob in chk.obs):
        chk.ok("O0.5", "<anchor files>", "%d functions: no kept closure reads a loop variable late, no one-shot iterator is consumed twice" % n)


def _exercise_anchor_files(pid, program, chk):
    """interpret every function of the property's anchor files once, without hooks, only to collect O0.1 reads
    (thorough tier: every function of the package)"""
    files = set(_anchor_files(pid)) if chk.tier != "thorough" else {".py"}
    n = 0
    for fi in list(program.functions.values()):
        rel = getattr(fi.module, "relpath", "") or ""
        if not any(rel.endswith(f) for f in files):
            continue
        # a call inside a try body may raise what the handlers of that try catch (one representative per handler)
        raising = {}
        for t in _ast.walk(fi.node):
            if isinstance(t, _ast.Try) and t.handlers:
                excs = []
                for h in t.handlers:
                    types = h.type.elts if isinstance(h.type, _ast.Tuple) else [h.type]
                    for ty in types[:1]:
                        q = program.resolve(fi.module, ty) if ty is not None else "rep:OtherBase"
                        if q:
                            excs.append(interp.exc_value(q, "raised in try body"))
                for st in t.body:
                    for c in _ast.walk(st):
                        if isinstance(c, _ast.Call):
                            raising.setdefault(id(c), excs)

        def hook(it, path, ct, node, raising=raising):
            ex = raising.get(id(node))
            if ex and ct[0] == "call":
                return [("raise", e) for e in ex] + [("value", ct)]
            return None

        try:
            interp.Interp(program, fi, call_hook=hook if raising else None).run()
            n += 1
        except Undecided:
            continue
    chk.count(n)
    chk.facts["O0.1 functions of the anchor files interpreted for unbound reads"] = n


_NORMALISE_CONTROL = """
class A:
    def _rel(self, xs):
        for x in xs:
            %s
    def go(self, k):
        self._rel((k,))
        self._rel(c for c in list(self.h) if c.d <= 0)
        self._rel([k, k])
"""


def _normalise_control():
    """the bulk-helper normalisation (sa/normalise.py) splits exactly the pattern it is documented for"""
    import ast as _ast

    from sa.normalise import normalise_module

    def run(body):
        tree = _ast.parse(_NORMALISE_CONTROL % body)
        return normalise_module(tree), _ast.unparse(tree)

    done, out = run("x.d = 0")
    want = ["def _rel__each(self, x):", "self._rel__each(k)", "for c in list(self.h):", "if c.d <= 0:", "self._rel__each(c)", "self._rel([k, k])"]
    if done != ["A._rel"] or not all(w in out for w in want):
        return False
    # bodies that would leave the loop, yield, use the collection or re-bind the element are left alone
    for body in ("return x", "continue", "yield x", "xs.append(x)", "x = 1"):
        if run(body)[0]:
            return False
    # records: one private NamedTuple attribute is read as the attributes it replaced -- only when every use is known
    tree = _ast.parse(_RECORD_CONTROL)
    done = normalise_module(tree)
    out = _ast.unparse(tree)
    want = ["self._token = None", "self._chan = None", "self._token = t", "return (self._token, self._chan)", "return self._chan"]
    if done != ["record R._acc"] or not all(w in out for w in want) or "def _token" in out:
        return False
    tree = _ast.parse(_RECORD_CONTROL + "    def leak(self):\n        return self._acc\n")
    if normalise_module(tree):
        return False  # the record escapes as a whole: left alone
    # tables, explicit async protocol, private bases (round 8)
    tree = _ast.parse(_TABLE_CONTROL)
    normalise_module(tree)
    out = _ast.unparse(tree)
    want = ["if self.u < self.lo:", "self.d = self.d - k", "elif self.a > self.hi:", "self.d = self.d + k", "else:", "self.d = 0", "self.ev.clear()", "self.run.set()", "async for t in rx:", "async with open_nursery() as n:"]
    if not all(w in out for w in want) or "for applies" in out or "__anext__" in out or "__aexit__" in out:
        return False
    # a loop with a break structure that is not the dispatch shape is left alone
    tree = _ast.parse("T = ((1, 2), (3, 4))\ndef f(x):\n    for a, b in T:\n        if a == x:\n            continue\n        x += b\n    return x\n")
    normalise_module(tree)
    if "for a, b in T" not in _ast.unparse(tree):
        return False
    from sa.normalise import flatten_private_bases

    mods = {"m": (_ast.parse(_BASE_CONTROL), False)}
    notes = flatten_private_bases(mods)
    out = _ast.unparse(mods["m"][0])
    if "class _Mix" in out or "class C(Base):" not in out or out.count("def helper") != 1 or "return 2" in out or out.count("def shadowed") != 2 or not notes:
        return False
    return True


_TABLE_CONTROL = """
import operator
_ADJ = (
    (lambda s: s.u < s.lo, operator.isub),
    (lambda s: s.a > s.hi, operator.iadd),
)
class K:
    _ON = (("ev", "clear"), ("run", "set"))
    def step(self, k):
        for applies, adjust in _ADJ:
            if applies(self):
                self.d = adjust(self.d, k)
                break
        else:
            self.d = 0
        for name, op in self._ON:
            getattr(getattr(self, name), op)()
    async def pump(self, rx):
        it = rx.__aiter__()
        while True:
            try:
                t = await it.__anext__()
            except StopAsyncIteration:
                break
            self.seen(t)
        mgr = open_nursery()
        n = await mgr.__aenter__()
        try:
            n.start_soon(self.seen)
        except BaseException as exc:
            if not await mgr.__aexit__(type(exc), exc, exc.__traceback__):
                raise
        else:
            await mgr.__aexit__(None, None, None)
"""

_BASE_CONTROL = """
class Base:
    def shadowed(self):
        return 0
class _Mix(Base):
    def helper(self):
        return self.x
    def shadowed(self):
        return 2
class C(_Mix):
    def shadowed(self):
        return 1
"""


_RECORD_CONTROL = """
from typing import NamedTuple
class _Acc(NamedTuple):
    token: object = None
    chan: object = None
class R:
    def __init__(self):
        self._acc = _Acc()
    @property
    def _token(self):
        return self._acc.token
    @property
    def _chan(self):
        return self._acc.chan
    def set(self, t):
        self._acc = self._acc._replace(token=t)
    def both(self):
        a, b = self._acc
        return a, b
    def chan(self):
        acc = self._acc
        return acc.chan
"""


def run_property(pid, tier, seed, repo, replay=None):
    started = time.time()
    try:
        program = Program(repo)
    except (AnchorMissing, Undecided, SyntaxError, OSError) as e:
        print("ANALYSIS-ERROR property=%s cannot index %s: %s" % (pid, repo, e))
        return 2
    chk = Check(pid, program, tier)
    try:
        mod = importlib.import_module("sa.rules.%s" % pid.lower())
    except ImportError as e:
        print("ANALYSIS-ERROR property=%s rule module missing: %s" % (pid, e))
        return 2
    selftest = None
    # thorough tier: every loop is explored one iteration further than the rule asks for (more paths, same obligations)
    try:
        interp.UNROLL_BONUS = int(os.environ.get("VERIF_UNROLL_BONUS", "1" if tier == "thorough" else "0"))
    except ValueError:
        interp.UNROLL_BONUS = 0
    interp.UNBOUND_READS.clear()
    if not _unbound_control(program):
        print("ANALYSIS-ERROR property=%s the unbound-local tracker (O0.1) does not behave as expected on its control example" % pid)
        return 2
    interp.UNBOUND_READS.clear()
    if not _normalise_control():
        print("ANALYSIS-ERROR property=%s the bulk-helper normalisation (sa/normalise.py) does not behave as expected on its control example" % pid)
        return 2
    if any(m.normalised for m in program.modules.values()):
        chk.notes.append("bulk helpers read in their per-element form (sa/normalise.py): %s" % sorted(h for m in program.modules.values() for h in m.normalised))
    try:
        mod.run(chk)
        if tier == "thorough" and hasattr(mod, "run_thorough"):
            mod.run_thorough(chk)
        _exercise_anchor_files(pid, program, chk)
        _attribute_check(pid, program, chk)
        _shared_state_check(pid, program, chk)
        _shared_default_check(pid, program, chk)
        _closure_iterator_check(pid, program, chk)
        # O0.1 (every property): a function the rules interpreted reads a local that no earlier statement on that
        # path has bound -- the anchored code raises UnboundLocalError / NameError instead of doing what the property says
        if not interp.UNBOUND_READS:
            chk.ok("O0.1", "<anchor files>", "%s functions interpreted (calls in try bodies may raise what the handlers catch): no read of a name that no earlier statement on the path has bound" % chk.facts.get("O0.1 functions of the anchor files interpreted for unbound reads", "?"))
        for (qual, name), line in sorted(interp.UNBOUND_READS.items()):
            fi = program.functions.get(qual)
            chk.bad(
                "O0.1",
                qual,
                "`%s` is read at line %s on a path where no earlier statement has bound it (UnboundLocalError): the code this property rests on cannot run" % (name, line),
                node=fi.node if fi is not None else None,
                stmt="unbound %s" % name,
            )
    except AnchorMissing as e:
        chk.missing("driver", "<anchor>", str(e))
    except Undecided as e:
        chk.undecided("driver", "<engine>", str(e), node=e.node)
    except Exception:
        traceback.print_exc()
        print("ANALYSIS-ERROR property=%s internal error in the checker (see traceback)" % pid)
        return 2
    if replay:
        try:
            with open(replay) as f:
                want = json.load(f).get("key")
        except (OSError, ValueError) as e:
            print("ANALYSIS-ERROR cannot read replay file: %s" % e)
            return 2
        hits = [ob for ob in chk.obs if ob.key == want]
        if not hits:
            print("replay: obligation %s no longer exists on the current tree" % want)
            chk.obs = []
        else:
            chk.obs = hits
            for ob in hits:
                print("replay: %s" % json.dumps(ob.as_json(), indent=1, default=str))
    if tier == "thorough" and not replay and os.environ.get("VERIF_NO_SELFTEST") != "1":
        try:
            from selftest import harness

            clean = not any(ob.status != report.DISCHARGED and not ob.aux for ob in chk.obs)
            selftest = harness.run(pid, repo, seed, clean)
        except Exception as e:  # the self-test never decides the verdict
            selftest = {"error": "%s: %s" % (type(e).__name__, e)}
    code = report.finish(chk, seed, started, selftest=selftest)
    if selftest and os.environ.get("VERIF_SELFTEST_STRICT") == "1" and code == 0:
        if selftest.get("missed") or selftest.get("noisy") or selftest.get("error"):
            print("SELFTEST-WEAK property=%s %s" % (pid, json.dumps({k: selftest.get(k) for k in ("missed", "noisy", "error")})))
            return 3
    return code


def main():
    ap = argparse.ArgumentParser()
    ap.add_argument("property")
    ap.add_argument("--tier", default=os.environ.get("VERIF_TIER", "quick"), choices=["quick", "thorough"])
    ap.add_argument("--replay")
    ap.add_argument("--repo", default=os.environ.get("VERIF_REPO", "/repo"))
    args = ap.parse_args()
    try:
        seed = int(os.environ.get("VERIF_SEED", "0"))
    except ValueError:
        seed = 0
    pids = ALL if args.property == "all" else [args.property.upper()]
    worst = 0
    for pid in pids:
        if pid not in ALL:
            print("ANALYSIS-ERROR unknown property %s" % pid)
            return 2
        try:
            code = run_property(pid, args.tier, seed, args.repo, args.replay)
        except Exception:  # a crash of the checker is never a verdict about the code
            import traceback

            traceback.print_exc()
            print("ANALYSIS-ERROR property=%s internal error in the checker outside a rule (see traceback)" % pid)
            code = 2
        worst = max(worst, code) if 1 not in (worst, code) else 1
    return worst


if __name__ == "__main__":
    sys.stdout.reconfigure(line_buffering=True)
    sys.exit(main())
