"""Command line driver: evaluates the obligations of one property (or all) on /repo's working tree."""
import argparse
import importlib
import json
import os
import sys
import time
import traceback

HERE = os.path.dirname(os.path.abspath(__file__))
sys.path.insert(0, os.path.dirname(HERE))

from sa import report  # noqa: E402
from sa.index import Program  # noqa: E402
from sa.report import AnchorMissing, Check, Undecided  # noqa: E402

ALL = ["C%02d" % i for i in range(1, 20)]


def run_property(pid, tier, seed, repo, replay=None):
    started = time.time()
    try:
        program = Program(repo)
    except (AnchorMissing, Undecided, SyntaxError, OSError) as e:
        print("ANALYSIS-ERROR property=%s cannot index %s: %s" % (pid, repo, e))
        return 2
    chk = Check(pid, program, tier)
    try:
        mod = importlib.import_module("sa.rules.%s" % pid.lower())
    except ImportError as e:
        print("ANALYSIS-ERROR property=%s rule module missing: %s" % (pid, e))
        return 2
    selftest = None
    try:
        mod.run(chk)
        if tier == "thorough" and hasattr(mod, "run_thorough"):
            mod.run_thorough(chk)
    except AnchorMissing as e:
        chk.missing("driver", "<anchor>", str(e))
    except Undecided as e:
        chk.undecided("driver", "<engine>", str(e), node=e.node)
    except Exception:
        traceback.print_exc()
        print("ANALYSIS-ERROR property=%s internal error in the checker (see traceback)" % pid)
        return 2
    if replay:
        try:
            with open(replay) as f:
                want = json.load(f).get("key")
        except (OSError, ValueError) as e:
            print("ANALYSIS-ERROR cannot read replay file: %s" % e)
            return 2
        hits = [ob for ob in chk.obs if ob.key == want]
        if not hits:
            print("replay: obligation %s no longer exists on the current tree" % want)
            chk.obs = []
        else:
            chk.obs = hits
            for ob in hits:
                print("replay: %s" % json.dumps(ob.as_json(), indent=1, default=str))
    if tier == "thorough" and not replay and os.environ.get("VERIF_NO_SELFTEST") != "1":
        try:
            from selftest import harness

            clean = not any(ob.status != report.DISCHARGED and not ob.aux for ob in chk.obs)
            selftest = harness.run(pid, repo, seed, clean)
        except Exception as e:  # the self-test never decides the verdict
            selftest = {"error": "%s: %s" % (type(e).__name__, e)}
    code = report.finish(chk, seed, started, selftest=selftest)
    if selftest and os.environ.get("VERIF_SELFTEST_STRICT") == "1" and code == 0:
        if selftest.get("missed") or selftest.get("noisy") or selftest.get("error"):
            print("SELFTEST-WEAK property=%s %s" % (pid, json.dumps({k: selftest.get(k) for k in ("missed", "noisy", "error")})))
            return 3
    return code


def main():
    ap = argparse.ArgumentParser()
    ap.add_argument("property")
    ap.add_argument("--tier", default=os.environ.get("VERIF_TIER", "quick"), choices=["quick", "thorough"])
    ap.add_argument("--replay")
    ap.add_argument("--repo", default=os.environ.get("VERIF_REPO", "/repo"))
    args = ap.parse_args()
    try:
        seed = int(os.environ.get("VERIF_SEED", "0"))
    except ValueError:
        seed = 0
    pids = ALL if args.property == "all" else [args.property.upper()]
    worst = 0
    for pid in pids:
        if pid not in ALL:
            print("ANALYSIS-ERROR unknown property %s" % pid)
            return 2
        code = run_property(pid, args.tier, seed, args.repo, args.replay)
        worst = max(worst, code) if 1 not in (worst, code) else 1
    return worst


if __name__ == "__main__":
    sys.stdout.reconfigure(line_buffering=True)
    sys.exit(main())
