"""Shared discovery helpers (DESIGN.md 2.2: anchors are discovered from the code where possible)."""
import ast
from typing import List, Optional

from .index import ClassInfo, FuncInfo, FuncNode, Program, dotted
from .report import AnchorMissing, Undecided

SERVICE_DECORATOR = "cobald.daemon.runners.service:service"
BASE_RUNNER = "cobald.daemon.runners.base_runner:BaseRunner"
POOL = "cobald.interfaces._pool:Pool"
CONTROLLER = "cobald.interfaces._controller:Controller"
DECORATOR = "cobald.interfaces._proxy:PoolDecorator"
COMPOSITE = "cobald.interfaces._composite:CompositePool"
PARTIAL = "cobald.interfaces._partial:Partial"
PARTIAL_BIND = "cobald.interfaces._partial:PartialBind"


def service_classes(program: Program) -> List[ClassInfo]:
    return sorted((c for c in program.classes.values() if SERVICE_DECORATOR in c.decorators), key=lambda c: c.qual)


def service_flavour(program: Program, cls: ClassInfo) -> Optional[str]:
    """resolved qualified name of the flavour argument of @service(flavour=...)"""
    for d in cls.node.decorator_list:
        if isinstance(d, ast.Call) and program.resolve(cls.module, d.func) == SERVICE_DECORATOR:
            arg = None
            if d.args:
                arg = d.args[0]
            for kw in d.keywords:
                if kw.arg == "flavour":
                    arg = kw.value
            if arg is not None:
                return program.resolve(cls.module, arg)
    return None


def is_abstract(cls: ClassInfo) -> bool:
    for fis in cls.methods.values():
        for fi in fis:
            if any((n or "").split(".")[-1] == "abstractmethod" for n in fi.decorator_names()):
                return True
    return False


def concrete_runners(program: Program) -> List[ClassInfo]:
    if BASE_RUNNER not in program.classes:
        raise AnchorMissing("BaseRunner not found")
    out = []
    for c in program.subclasses(BASE_RUNNER):
        # concrete = every abstract method of the MRO is overridden
        abstract = set()
        for q in reversed(c.mro):
            k = program.classes.get(q)
            if k is None:
                continue
            for name, fis in k.methods.items():
                fi = program.pick(fis)
                if fi is None:
                    continue
                if any((n or "").split(".")[-1] == "abstractmethod" for n in fi.decorator_names()):
                    abstract.add(name)
                else:
                    abstract.discard(name)
        if not abstract:
            out.append(c)
    return sorted(out, key=lambda c: c.qual)


def walk_no_nested(node):
    """walk a function body without descending into nested function / class definitions"""
    todo = list(ast.iter_child_nodes(node))
    while todo:
        n = todo.pop()
        yield n
        if isinstance(n, FuncNode) or isinstance(n, (ast.ClassDef, ast.Lambda)):
            continue
        todo.extend(ast.iter_child_nodes(n))


def calls_in(node, nested=True):
    it = ast.walk(node) if nested else walk_no_nested(node)
    return [n for n in it if isinstance(n, ast.Call)]


def self_attr_uses(fi: FuncInfo):
    """(attr name, node, ctx) for every `self.<attr>` in the function (nested closures included)"""
    selfname = None
    a = fi.node.args
    params = [x.arg for x in a.posonlyargs + a.args]
    if fi.cls is None or fi.is_static or not params:
        return []
    selfname = params[0]
    out = []
    for n in ast.walk(fi.node):
        if isinstance(n, ast.Attribute) and isinstance(n.value, ast.Name) and n.value.id == selfname:
            out.append((n.attr, n, type(n.ctx).__name__))
    return out


def the_loop(fi: FuncInfo):
    """the single top-level loop statement of a function body (service `run` methods)"""
    loops = [st for st in fi.node.body if isinstance(st, (ast.While, ast.For, ast.AsyncFor))]
    if len(loops) != 1:
        return None
    return loops[0]


def const_true(test) -> Optional[bool]:
    if isinstance(test, ast.Constant):
        return bool(test.value)
    return None


def unparse(n):
    try:
        return ast.unparse(n)
    except Exception:
        return "<?>"


def parents_map(root):
    m = {}
    for n in ast.walk(root):
        for c in ast.iter_child_nodes(n):
            m[id(c)] = n
    return m


def enclosing(parents, node, kinds):
    n = parents.get(id(node))
    while n is not None:
        if isinstance(n, kinds):
            return n
        n = parents.get(id(n))
    return None


def handler_reraises_all_paths(program, fi, handler) -> Optional[bool]:
    """does every path through the handler body end in a raise? (AST-level, conservative)"""

    def block(stmts):
        for st in stmts:
            r = stmt(st)
            if r:
                return True
        return False

    def stmt(st):
        if isinstance(st, ast.Raise):
            return True
        if isinstance(st, ast.If):
            return block(st.body) and block(st.orelse)
        if isinstance(st, (ast.With, ast.AsyncWith)):
            return block(st.body)
        if isinstance(st, ast.Try):
            if st.finalbody and block(st.finalbody):
                return True
            return block(st.body) and all(block(h.body) for h in st.handlers)
        return False

    return block(handler.body)


def simple_assignments(root):
    """(target node, value node) for every assignment under root; `a, b = x, y` is read as a = x; b = y"""
    for st in ast.walk(root):
        if isinstance(st, ast.Assign):
            for t in st.targets:
                if isinstance(t, (ast.Tuple, ast.List)) and isinstance(st.value, (ast.Tuple, ast.List)) and len(t.elts) == len(st.value.elts) and not any(isinstance(e, ast.Starred) for e in list(t.elts) + list(st.value.elts)):
                    for tt, vv in zip(t.elts, st.value.elts):
                        yield tt, vv
                else:
                    yield t, st.value
        elif isinstance(st, ast.AnnAssign) and st.value is not None:
            yield st.target, st.value


_UD_CACHE = {}


def unsupplied_defaults(prog, fi, private_only=True):
    """{('sym', param): ('const', default)} for the defaulted parameters of a PRIVATE method that no call site of the
    package ever supplies (a helper generalised with `units=None`, `steps=10` behaves as before for its callers)"""
    key = (id(prog), fi.qual, private_only)
    if key not in _UD_CACHE:
        _UD_CACHE[key] = _unsupplied_defaults(prog, fi, private_only)
    return _UD_CACHE[key]


def _unsupplied_defaults(prog, fi, private_only):
    env = {}
    for name, d in unsupplied_default_nodes(prog, fi, private_only).items():
        if isinstance(d, ast.Constant):
            env[("sym", name)] = ("const", d.value)
        elif isinstance(d, ast.Call) and dotted(d.func) == "float" and len(d.args) == 1 and isinstance(d.args[0], ast.Constant) and not d.keywords:
            env[("sym", name)] = ("call", ("glob", "ext:builtins.float"), (("const", d.args[0].value),), (), 0)
    va = fi.node.args.vararg
    if va is not None and vararg_unsupplied(prog, fi, private_only):
        env[("sym", va.arg)] = ("tuple", ())
    return env


def _positional(fi):
    a = fi.node.args
    pos = [x.arg for x in a.posonlyargs + a.args]
    if pos and fi.cls is not None and not fi.is_static:
        pos = pos[1:]
    return pos


_SUPPLY_CACHE = {}


def _supply(prog, fi, _depth=0):
    """(names of parameters some call site / hand-over in the package supplies, may extra positionals reach *args,
    is anything unknown).  A hand-over `f(g, a, k=v)` is read as: the arguments after g may be passed on to g."""
    key = (id(prog), fi.qual)
    if key in _SUPPLY_CACHE:
        return _SUPPLY_CACHE[key]
    _SUPPLY_CACHE[key] = (set(), True, True)  # recursion guard: assume the worst
    pos = _positional(fi)
    supplied, extra, unknown = set(), False, False

    def is_ref(m, n):
        if fi.cls is not None:
            return isinstance(n, ast.Attribute) and n.attr == fi.name
        return isinstance(n, (ast.Name, ast.Attribute)) and isinstance(getattr(n, "ctx", None), ast.Load) and prog.resolve(m, n) == fi.qual

    def empty_star(m, x, owner):
        """*args where args is the enclosing function's own vararg and nothing ever reaches that vararg"""
        if not (isinstance(x, ast.Starred) and isinstance(x.value, ast.Name)) or owner is None or _depth > 3:
            return False
        va = owner.node.args.vararg
        if va is None or va.arg != x.value.id:
            return False
        if any(isinstance(n, ast.Name) and n.id == va.arg and isinstance(n.ctx, (ast.Store, ast.Del)) for n in ast.walk(owner.node)):
            return False
        _s, ex, unk = _supply(prog, owner, _depth + 1)
        return not ex and not unk

    def positional(m, args, owner, offset=0):
        nonlocal extra
        i = offset
        for x in args:
            if isinstance(x, ast.Starred):
                if empty_star(m, x, owner):
                    continue
                supplied.update(pos[i:])
                extra = True
                return
            if i < len(pos):
                supplied.add(pos[i])
            else:
                extra = True
            i += 1

    for m in prog.modules.values():
        owners = {}
        for f in prog.functions.values():
            if f.module is m:
                for n in ast.walk(f.node):
                    owners.setdefault(id(n), f)  # outermost first is fine: varargs of nested defs are rare
        for n in ast.walk(m.tree):
            if not isinstance(n, ast.Call):
                continue
            owner = owners.get(id(n))
            if is_ref(m, n.func):
                positional(m, n.args, owner)
                for k in n.keywords:
                    if k.arg is None:
                        unknown = True
                    else:
                        supplied.add(k.arg)
                continue
            is_thread = (prog.resolve(m, n.func) or "") == "ext:threading.Thread"
            for j, x in enumerate(n.args):
                if is_ref(m, x):
                    positional(m, n.args[j + 1 :], owner)
                    for k in n.keywords:
                        if k.arg is None:
                            unknown = True
                        else:
                            supplied.add(k.arg)
            for k in n.keywords:
                if not is_ref(m, k.value):
                    continue
                if is_thread and k.arg == "target":
                    # Thread(target=g, args=(a, b), kwargs={...}): the displays say what reaches g
                    for k2 in n.keywords:
                        v = k2.value
                        if k2.arg == "args":
                            if isinstance(v, ast.Call) and dotted(v.func) in ("tuple", "list") and len(v.args) == 1:
                                v = v.args[0]
                            if isinstance(v, (ast.Tuple, ast.List)):
                                positional(m, v.elts, owner)
                            else:
                                unknown = True
                        elif k2.arg == "kwargs":
                            if isinstance(v, ast.Dict) and all(isinstance(kk, ast.Constant) for kk in v.keys):
                                supplied.update(kk.value for kk in v.keys)
                            else:
                                unknown = True
                else:
                    unknown = True
    _SUPPLY_CACHE[key] = (supplied, extra, unknown)
    return _SUPPLY_CACHE[key]


def vararg_unsupplied(prog, fi, private_only=True):
    """no call site / hand-over in the package passes more positional arguments than fi names: its *args is ()"""
    if fi.name.startswith("__") or (private_only and not fi.name.startswith("_")) or (fi.cls is None and fi.parent is not None):
        return False
    _s, extra, unknown = _supply(prog, fi)
    return not extra and not unknown


def unsupplied_default_nodes(prog, fi, private_only=True):
    """{param: default expression} for the defaulted parameters of a private method / private module-level function
    that no call site and no hand-over (`adopt(fn, a, k=v)`: the arguments after fn may reach it) in the package supplies"""
    if fi.name.startswith("__") or (private_only and not fi.name.startswith("_")) or (fi.cls is None and fi.parent is not None):
        return {}
    a = fi.node.args
    pos = _positional(fi)
    defaults = dict(zip(pos[len(pos) - len(a.defaults):], a.defaults)) if a.defaults else {}
    defaults.update({x.arg: d for x, d in zip(a.kwonlyargs, a.kw_defaults) if d is not None})
    if not defaults:
        return {}
    supplied, _extra, unknown = _supply(prog, fi)
    if unknown:
        return {}
    return {name: d for name, d in defaults.items() if name not in supplied}


def flatten_helpers(prog, fi, depth=2, awaited=False):
    """a copy of fi's definition in which call STATEMENTS to own helpers -- `self._h(a, b)`, `cls._h(...)`,
    `Class._h(...)`, a private module-level `_h(...)` of the same module -- are replaced by the helper's body with its
    parameters renamed to the argument expressions.  Only helpers that return nothing, never re-bind a parameter, whose
    locals clash with nothing in the caller, called with plain names / attribute chains / constants.  For rules that read
    the shape of one function (validation before re-targeting, ...): splitting that function into private helpers called
    in the same order does not change what it does."""
    import copy

    node = copy.deepcopy(fi.node)
    cls = fi.cls

    def helper_of(call):
        f = call.func
        g = None
        if isinstance(f, ast.Attribute) and isinstance(f.value, ast.Name) and cls is not None and f.value.id in ("self", "cls", cls.name):
            g = prog.lookup_method(cls, f.attr)
            if g is not None and g.cls is None:
                g = None
        elif isinstance(f, ast.Name):
            r = prog.resolve(fi.module, f)
            g = prog.functions.get(r) if r else None
            if g is not None and (g.cls is not None or g.module is not fi.module or not g.name.startswith("_")):
                g = None
        if g is None or g is fi or g.node.decorator_list and not (g.is_static or g.is_classmethod):
            return None
        return g

    def simple(e):
        return isinstance(e, ast.Constant) or dotted(e) is not None

    def expand(stmts, level, caller_names):
        out = []
        for st in stmts:
            # recurse into compound statements
            for fld in ("body", "orelse", "finalbody"):
                sub = getattr(st, fld, None)
                if isinstance(sub, list) and sub and isinstance(sub[0], ast.stmt) and not isinstance(st, (ast.FunctionDef, ast.AsyncFunctionDef, ast.ClassDef)):
                    setattr(st, fld, expand(sub, level, caller_names))
            g = None
            call = None
            if isinstance(st, ast.Expr) and isinstance(st.value, ast.Call) and level < depth:
                call = st.value
                g = helper_of(call)
                if g is not None and g.is_async:
                    g = None  # a coroutine that is created and dropped
            elif awaited and isinstance(st, ast.Expr) and isinstance(st.value, ast.Await) and isinstance(st.value.value, ast.Call) and level < depth and fi.is_async:
                # `await self._h(a)` of an own coroutine runs its body right here
                call = st.value.value
                g = helper_of(call)
                if g is not None and not g.is_async:
                    g = None
            if g is None:
                out.append(st)
                continue
            a = g.node.args
            params = [x.arg for x in a.posonlyargs + a.args]
            if g.cls is not None and not g.is_static:
                params = params[1:]  # self / cls is the caller's own
            body = [b for b in g.node.body if not (isinstance(b, ast.Expr) and isinstance(b.value, ast.Constant))]
            rets = [n for b in body for n in ast.walk(b) if isinstance(n, ast.Return)]
            ok = (
                not a.vararg and not a.kwarg and not a.kwonlyargs and not a.defaults
                and len(call.args) + len(call.keywords) == len(params)
                and not any(isinstance(x, ast.Starred) for x in call.args) and all(k.arg in params for k in call.keywords)
                and all(simple(x) for x in list(call.args) + [k.value for k in call.keywords])
                and not any(r.value is not None and not (isinstance(r.value, ast.Constant) and r.value.value is None) for r in rets)
                and all(r is body[-1] for r in rets)
                and not any(isinstance(n, (ast.Yield, ast.YieldFrom, ast.Global, ast.Nonlocal)) for b in body for n in ast.walk(b))
            )
            if not ok:
                out.append(st)
                continue
            binding = dict(zip(params, call.args))
            binding.update({k.arg: k.value for k in call.keywords})
            stores = {n.id for b in body for n in ast.walk(b) if isinstance(n, ast.Name) and isinstance(n.ctx, (ast.Store, ast.Del))}
            if stores & set(params) or stores & caller_names:
                out.append(st)
                continue
            new_body = copy.deepcopy([b for b in body if not isinstance(b, ast.Return)])

            class Sub(ast.NodeTransformer):
                def visit_Name(self, n):
                    if n.id in binding and isinstance(n.ctx, ast.Load):
                        return ast.copy_location(copy.deepcopy(binding[n.id]), n)
                    if n.id == "cls" and g.is_classmethod and cls is not None:
                        return ast.copy_location(ast.Name(id=cls.name, ctx=ast.Load()), n)
                    return n

            new_body = [Sub().visit(b) for b in new_body]
            out.extend(expand(new_body, level + 1, caller_names | stores))
        return out

    names = {n.id for n in ast.walk(node) if isinstance(n, ast.Name)} | {x.arg for x in ast.walk(node) if isinstance(x, ast.arg)}
    node.body = expand(node.body, 0, names)
    ast.fix_missing_locations(node)
    return node
