"""Shared discovery helpers (DESIGN.md 2.2: anchors are discovered from the code where possible)."""
import ast
from typing import List, Optional

from .index import ClassInfo, FuncInfo, FuncNode, Program, dotted
from .report import AnchorMissing, Undecided

SERVICE_DECORATOR = "cobald.daemon.runners.service:service"
BASE_RUNNER = "cobald.daemon.runners.base_runner:BaseRunner"
POOL = "cobald.interfaces._pool:Pool"
CONTROLLER = "cobald.interfaces._controller:Controller"
DECORATOR = "cobald.interfaces._proxy:PoolDecorator"
COMPOSITE = "cobald.interfaces._composite:CompositePool"
PARTIAL = "cobald.interfaces._partial:Partial"
PARTIAL_BIND = "cobald.interfaces._partial:PartialBind"


def service_classes(program: Program) -> List[ClassInfo]:
    return sorted((c for c in program.classes.values() if SERVICE_DECORATOR in c.decorators), key=lambda c: c.qual)


def service_flavour(program: Program, cls: ClassInfo) -> Optional[str]:
    """resolved qualified name of the flavour argument of @service(flavour=...)"""
    for d in cls.node.decorator_list:
        if isinstance(d, ast.Call) and program.resolve(cls.module, d.func) == SERVICE_DECORATOR:
            arg = None
            if d.args:
                arg = d.args[0]
            for kw in d.keywords:
                if kw.arg == "flavour":
                    arg = kw.value
            if arg is not None:
                return program.resolve(cls.module, arg)
    return None


def is_abstract(cls: ClassInfo) -> bool:
    for fis in cls.methods.values():
        for fi in fis:
            if any((n or "").split(".")[-1] == "abstractmethod" for n in fi.decorator_names()):
                return True
    return False


def concrete_runners(program: Program) -> List[ClassInfo]:
    if BASE_RUNNER not in program.classes:
        raise AnchorMissing("BaseRunner not found")
    out = []
    for c in program.subclasses(BASE_RUNNER):
        # concrete = every abstract method of the MRO is overridden
        abstract = set()
        for q in reversed(c.mro):
            k = program.classes.get(q)
            if k is None:
                continue
            for name, fis in k.methods.items():
                fi = program.pick(fis)
                if fi is None:
                    continue
                if any((n or "").split(".")[-1] == "abstractmethod" for n in fi.decorator_names()):
                    abstract.add(name)
                else:
                    abstract.discard(name)
        if not abstract:
            out.append(c)
    return sorted(out, key=lambda c: c.qual)


def walk_no_nested(node):
    """walk a function body without descending into nested function / class definitions"""
    todo = list(ast.iter_child_nodes(node))
    while todo:
        n = todo.pop()
        yield n
        if isinstance(n, FuncNode) or isinstance(n, (ast.ClassDef, ast.Lambda)):
            continue
        todo.extend(ast.iter_child_nodes(n))


def calls_in(node, nested=True):
    it = ast.walk(node) if nested else walk_no_nested(node)
    return [n for n in it if isinstance(n, ast.Call)]


def self_attr_uses(fi: FuncInfo):
    """(attr name, node, ctx) for every `self.<attr>` in the function (nested closures included)"""
    selfname = None
    a = fi.node.args
    params = [x.arg for x in a.posonlyargs + a.args]
    if fi.cls is None or fi.is_static or not params:
        return []
    selfname = params[0]
    out = []
    for n in ast.walk(fi.node):
        if isinstance(n, ast.Attribute) and isinstance(n.value, ast.Name) and n.value.id == selfname:
            out.append((n.attr, n, type(n.ctx).__name__))
    return out


def the_loop(fi: FuncInfo):
    """the single top-level loop statement of a function body (service `run` methods)"""
    loops = [st for st in fi.node.body if isinstance(st, (ast.While, ast.For, ast.AsyncFor))]
    if len(loops) != 1:
        return None
    return loops[0]


def const_true(test) -> Optional[bool]:
    if isinstance(test, ast.Constant):
        return bool(test.value)
    return None


def unparse(n):
    try:
        return ast.unparse(n)
    except Exception:
        return "<?>"


def parents_map(root):
    m = {}
    for n in ast.walk(root):
        for c in ast.iter_child_nodes(n):
            m[id(c)] = n
    return m


def enclosing(parents, node, kinds):
    n = parents.get(id(node))
    while n is not None:
        if isinstance(n, kinds):
            return n
        n = parents.get(id(n))
    return None


def handler_reraises_all_paths(program, fi, handler) -> Optional[bool]:
    """does every path through the handler body end in a raise? (AST-level, conservative)"""

    def block(stmts):
        for st in stmts:
            r = stmt(st)
            if r:
                return True
        return False

    def stmt(st):
        if isinstance(st, ast.Raise):
            return True
        if isinstance(st, ast.If):
            return block(st.body) and block(st.orelse)
        if isinstance(st, (ast.With, ast.AsyncWith)):
            return block(st.body)
        if isinstance(st, ast.Try):
            if st.finalbody and block(st.finalbody):
                return True
            return block(st.body) and all(block(h.body) for h in st.handlers)
        return False

    return block(handler.body)


def simple_assignments(root):
    """(target node, value node) for every assignment under root; `a, b = x, y` is read as a = x; b = y"""
    for st in ast.walk(root):
        if isinstance(st, ast.Assign):
            for t in st.targets:
                if isinstance(t, (ast.Tuple, ast.List)) and isinstance(st.value, (ast.Tuple, ast.List)) and len(t.elts) == len(st.value.elts) and not any(isinstance(e, ast.Starred) for e in list(t.elts) + list(st.value.elts)):
                    for tt, vv in zip(t.elts, st.value.elts):
                        yield tt, vv
                else:
                    yield t, st.value
        elif isinstance(st, ast.AnnAssign) and st.value is not None:
            yield st.target, st.value


_UD_CACHE = {}


def unsupplied_defaults(prog, fi, private_only=True):
    """{('sym', param): ('const', default)} for the defaulted parameters of a PRIVATE method that no call site of the
    package ever supplies (a helper generalised with `units=None`, `steps=10` behaves as before for its callers)"""
    key = (id(prog), fi.qual, private_only)
    if key not in _UD_CACHE:
        _UD_CACHE[key] = _unsupplied_defaults(prog, fi, private_only)
    return _UD_CACHE[key]


def _unsupplied_defaults(prog, fi, private_only):
    env = {}
    for name, d in unsupplied_default_nodes(prog, fi, private_only).items():
        if isinstance(d, ast.Constant):
            env[("sym", name)] = ("const", d.value)
        elif isinstance(d, ast.Call) and dotted(d.func) == "float" and len(d.args) == 1 and isinstance(d.args[0], ast.Constant) and not d.keywords:
            env[("sym", name)] = ("call", ("glob", "ext:builtins.float"), (("const", d.args[0].value),), (), 0)
    va = fi.node.args.vararg
    if va is not None and vararg_unsupplied(prog, fi, private_only):
        env[("sym", va.arg)] = ("tuple", ())
    return env


def _positional(fi):
    a = fi.node.args
    pos = [x.arg for x in a.posonlyargs + a.args]
    if pos and fi.cls is not None and not fi.is_static:
        pos = pos[1:]
    return pos


_SUPPLY_CACHE = {}


def _supply(prog, fi, _depth=0):
    """(names of parameters some call site / hand-over in the package supplies, may extra positionals reach *args,
    is anything unknown).  A hand-over `f(g, a, k=v)` is read as: the arguments after g may be passed on to g."""
    key = (id(prog), fi.qual)
    if key in _SUPPLY_CACHE:
        return _SUPPLY_CACHE[key]
    _SUPPLY_CACHE[key] = (set(), True, True)  # recursion guard: assume the worst
    pos = _positional(fi)
    supplied, extra, unknown = set(), False, False

    def is_ref(m, n):
        if fi.cls is not None:
            return isinstance(n, ast.Attribute) and n.attr == fi.name
        return isinstance(n, (ast.Name, ast.Attribute)) and isinstance(getattr(n, "ctx", None), ast.Load) and prog.resolve(m, n) == fi.qual

    def empty_star(m, x, owner):
        """*args where args is the enclosing function's own vararg and nothing ever reaches that vararg"""
        if not (isinstance(x, ast.Starred) and isinstance(x.value, ast.Name)) or owner is None or _depth > 3:
            return False
        va = owner.node.args.vararg
        if va is None or va.arg != x.value.id:
            return False
        if any(isinstance(n, ast.Name) and n.id == va.arg and isinstance(n.ctx, (ast.Store, ast.Del)) for n in ast.walk(owner.node)):
            return False
        _s, ex, unk = _supply(prog, owner, _depth + 1)
        return not ex and not unk

    def positional(m, args, owner, offset=0):
        nonlocal extra
        i = offset
        for x in args:
            if isinstance(x, ast.Starred):
                if empty_star(m, x, owner):
                    continue
                supplied.update(pos[i:])
                extra = True
                return
            if i < len(pos):
                supplied.add(pos[i])
            else:
                extra = True
            i += 1

    for m in prog.modules.values():
        owners = {}
        for f in prog.functions.values():
            if f.module is m:
                for n in ast.walk(f.node):
                    owners.setdefault(id(n), f)  # outermost first is fine: varargs of nested defs are rare
        for n in ast.walk(m.tree):
            if not isinstance(n, ast.Call):
                continue
            owner = owners.get(id(n))
            if is_ref(m, n.func):
                positional(m, n.args, owner)
                for k in n.keywords:
                    if k.arg is None:
                        unknown = True
                    else:
                        supplied.add(k.arg)
                continue
            is_thread = (prog.resolve(m, n.func) or "") == "ext:threading.Thread"
            for j, x in enumerate(n.args):
                if is_ref(m, x):
                    positional(m, n.args[j + 1 :], owner)
                    for k in n.keywords:
                        if k.arg is None:
                            unknown = True
                        else:
                            supplied.add(k.arg)
            for k in n.keywords:
                if not is_ref(m, k.value):
                    continue
                if is_thread and k.arg == "target":
                    # Thread(target=g, args=(a, b), kwargs={...}): the displays say what reaches g
                    for k2 in n.keywords:
                        v = k2.value
                        if k2.arg == "args":
                            if isinstance(v, ast.Call) and dotted(v.func) in ("tuple", "list") and len(v.args) == 1:
                                v = v.args[0]
                            if isinstance(v, (ast.Tuple, ast.List)):
                                positional(m, v.elts, owner)
                            else:
                                unknown = True
                        elif k2.arg == "kwargs":
                            if isinstance(v, ast.Dict) and all(isinstance(kk, ast.Constant) for kk in v.keys):
                                supplied.update(kk.value for kk in v.keys)
                            else:
                                unknown = True
                else:
                    unknown = True
    # a reference in any other position (bound to a name, returned, stored, an arm of a conditional expression) can be
    # called with anything
    for m in prog.modules.values():
        accounted = set()
        for n in ast.walk(m.tree):
            if isinstance(n, ast.Call):
                accounted.add(id(n.func))
                for x in list(n.args) + [k.value for k in n.keywords]:
                    accounted.add(id(x))
            elif isinstance(n, (ast.FunctionDef, ast.AsyncFunctionDef, ast.ClassDef)):
                for d in n.decorator_list:
                    accounted.add(id(d))
        for n in ast.walk(m.tree):
            if id(n) not in accounted and isinstance(n, (ast.Name, ast.Attribute)) and isinstance(getattr(n, "ctx", None), ast.Load) and is_ref(m, n):
                if fi.cls is not None and isinstance(n, ast.Attribute) and dotted(n.value) not in ("self", "cls", fi.cls.name):
                    continue  # another object's attribute of the same name
                unknown = True
    _SUPPLY_CACHE[key] = (supplied, extra, unknown)
    return _SUPPLY_CACHE[key]


def vararg_unsupplied(prog, fi, private_only=True):
    """no call site / hand-over in the package passes more positional arguments than fi names: its *args is ()"""
    if fi.name.startswith("__") or (private_only and not fi.name.startswith("_")) or (fi.cls is None and fi.parent is not None):
        return False
    _s, extra, unknown = _supply(prog, fi)
    return not extra and not unknown


def unsupplied_default_nodes(prog, fi, private_only=True):
    """{param: default expression} for the defaulted parameters of a private method / private module-level function
    that no call site and no hand-over (`adopt(fn, a, k=v)`: the arguments after fn may reach it) in the package supplies"""
    if fi.name.startswith("__") or (private_only and not fi.name.startswith("_")) or (fi.cls is None and fi.parent is not None):
        return {}
    a = fi.node.args
    pos = _positional(fi)
    defaults = dict(zip(pos[len(pos) - len(a.defaults):], a.defaults)) if a.defaults else {}
    defaults.update({x.arg: d for x, d in zip(a.kwonlyargs, a.kw_defaults) if d is not None})
    if not defaults:
        return {}
    supplied, _extra, unknown = _supply(prog, fi)
    if unknown:
        return {}
    return {name: d for name, d in defaults.items() if name not in supplied}


def flatten_helpers(prog, fi, depth=2, awaited=False, sync=True):
    """a copy of fi's definition in which call STATEMENTS to own helpers -- `self._h(a, b)`, `cls._h(...)`,
    `Class._h(...)`, a private module-level `_h(...)` of the same module -- are replaced by the helper's body with its
    parameters renamed to the argument expressions.  Only helpers that return nothing, never re-bind a parameter, whose
    locals clash with nothing in the caller, called with plain names / attribute chains / constants.  For rules that read
    the shape of one function (validation before re-targeting, ...): splitting that function into private helpers called
    in the same order does not change what it does."""
    import copy

    node = copy.deepcopy(fi.node)
    cls = fi.cls

    def helper_of(call):
        f = call.func
        g = None
        if isinstance(f, ast.Attribute) and isinstance(f.value, ast.Name) and cls is not None and f.value.id in ("self", "cls", cls.name):
            g = prog.lookup_method(cls, f.attr)
            if g is not None and g.cls is None:
                g = None
        elif isinstance(f, ast.Name):
            r = prog.resolve(fi.module, f)
            g = prog.functions.get(r) if r else None
            if g is not None and (g.cls is not None or g.module is not fi.module or not g.name.startswith("_")):
                g = None
        if g is None or g is fi or g.node.decorator_list and not (g.is_static or g.is_classmethod):
            return None
        return g

    def simple(e):
        return isinstance(e, ast.Constant) or dotted(e) is not None

    def expand(stmts, level, caller_names):
        out = []
        for st in stmts:
            # recurse into compound statements
            for fld in ("body", "orelse", "finalbody"):
                sub = getattr(st, fld, None)
                if isinstance(sub, list) and sub and isinstance(sub[0], ast.stmt) and not isinstance(st, (ast.FunctionDef, ast.AsyncFunctionDef, ast.ClassDef)):
                    setattr(st, fld, expand(sub, level, caller_names))
            for h in getattr(st, "handlers", None) or []:
                h.body = expand(h.body, level, caller_names)
            g = None
            call = None
            if sync and isinstance(st, ast.Expr) and isinstance(st.value, ast.Call) and level < depth:
                call = st.value
                g = helper_of(call)
                if g is not None and g.is_async:
                    g = None  # a coroutine that is created and dropped
            elif awaited and isinstance(st, ast.Expr) and isinstance(st.value, ast.Await) and isinstance(st.value.value, ast.Call) and level < depth and fi.is_async:
                # `await self._h(a)` of an own coroutine runs its body right here
                call = st.value.value
                g = helper_of(call)
                if g is not None and not g.is_async:
                    g = None
            if g is None:
                out.append(st)
                continue
            a = g.node.args
            params = [x.arg for x in a.posonlyargs + a.args]
            if g.cls is not None and not g.is_static:
                params = params[1:]  # self / cls is the caller's own
            body = [b for b in g.node.body if not (isinstance(b, ast.Expr) and isinstance(b.value, ast.Constant))]
            rets = [n for b in body for n in ast.walk(b) if isinstance(n, ast.Return)]
            ok = (
                not a.vararg and not a.kwarg and not a.kwonlyargs and not a.defaults
                and len(call.args) + len(call.keywords) == len(params)
                and not any(isinstance(x, ast.Starred) for x in call.args) and all(k.arg in params for k in call.keywords)
                and all(simple(x) for x in list(call.args) + [k.value for k in call.keywords])
                and not any(r.value is not None and not (isinstance(r.value, ast.Constant) and r.value.value is None) for r in rets)
                and all(r is body[-1] for r in rets)
                and not any(isinstance(n, (ast.Yield, ast.YieldFrom, ast.Global, ast.Nonlocal)) for b in body for n in ast.walk(b))
            )
            if not ok:
                out.append(st)
                continue
            binding = dict(zip(params, call.args))
            binding.update({k.arg: k.value for k in call.keywords})
            stores = {n.id for b in body for n in ast.walk(b) if isinstance(n, ast.Name) and isinstance(n.ctx, (ast.Store, ast.Del))}
            if stores & set(params) or stores & caller_names:
                out.append(st)
                continue
            new_body = copy.deepcopy([b for b in body if not isinstance(b, ast.Return)])

            class Sub(ast.NodeTransformer):
                def visit_Name(self, n):
                    if n.id in binding and isinstance(n.ctx, ast.Load):
                        return ast.copy_location(copy.deepcopy(binding[n.id]), n)
                    if n.id == "cls" and g.is_classmethod and cls is not None:
                        return ast.copy_location(ast.Name(id=cls.name, ctx=ast.Load()), n)
                    return n

            new_body = [Sub().visit(b) for b in new_body]
            out.extend(expand(new_body, level + 1, caller_names | stores))
        return out

    names = {n.id for n in ast.walk(node) if isinstance(n, ast.Name)} | {x.arg for x in ast.walk(node) if isinstance(x, ast.arg)}
    node.body = expand(node.body, 0, names)
    ast.fix_missing_locations(node)
    return node


# ---- optional collaborators:  def f(..., sleep=None): ... (sleep if sleep is not None else trio.sleep)(...) ----------
def _none_test(t, same):
    return isinstance(t, ast.Compare) and len(t.ops) == 1 and isinstance(t.ops[0], ast.Is) and same(t.left) and isinstance(t.comparators[0], ast.Constant) and t.comparators[0].value is None


def _rebinding_fallback(stmt, name):
    """`if <name> is None: <name> = D`"""
    return isinstance(stmt, ast.If) and not stmt.orelse and _none_test(stmt.test, lambda e: isinstance(e, ast.Name) and e.id == name) and len(stmt.body) == 1 and isinstance(stmt.body[0], ast.Assign) and len(stmt.body[0].targets) == 1 and isinstance(stmt.body[0].targets[0], ast.Name) and stmt.body[0].targets[0].id == name


def _is_fallback_use(par, n, same):
    """is the load `n` of an optional collaborator (a parameter or `self.<field>`) used ONLY to fall back to a default:
         X if X is not None else D   |   D if X is None else X   |   X or D
    `same(e)` tells whether expression e denotes the same collaborator"""
    up = par.get(id(n))
    # X or D
    if isinstance(up, ast.BoolOp) and isinstance(up.op, ast.Or) and up.values and up.values[0] is n and len(up.values) == 2:
        return True
    # local = X   directly followed by   if local is None: local = D
    if isinstance(up, ast.Assign) and up.value is n and len(up.targets) == 1 and isinstance(up.targets[0], ast.Name):
        blk = par.get(id(up))
        for fld in ("body", "orelse", "finalbody"):
            seq = getattr(blk, fld, None)
            if isinstance(seq, list) and up in seq:
                i = seq.index(up)
                if i + 1 < len(seq) and _rebinding_fallback(seq[i + 1], up.targets[0].id):
                    return True
    # the test  X is (not) None  of a conditional expression whose other arm is X
    if isinstance(up, ast.Compare) and up.left is n and len(up.ops) == 1 and isinstance(up.ops[0], (ast.Is, ast.IsNot)) and isinstance(up.comparators[0], ast.Constant) and up.comparators[0].value is None:
        ie = par.get(id(up))
        if isinstance(ie, ast.IfExp) and ie.test is up:
            arm = ie.body if isinstance(up.ops[0], ast.IsNot) else ie.orelse
            return same(arm)
        return False
    if isinstance(up, ast.IfExp) and (up.body is n or up.orelse is n):
        t = up.test
        if isinstance(t, ast.Compare) and len(t.ops) == 1 and same(t.left) and isinstance(t.comparators[0], ast.Constant) and t.comparators[0].value is None:
            return (isinstance(t.ops[0], ast.IsNot) and up.body is n) or (isinstance(t.ops[0], ast.Is) and up.orelse is n)
    return False


def _keyword_supplied_anywhere(prog, name):
    cache = prog.__dict__.setdefault("_kw_anywhere", None)
    if cache is None:
        cache = set()
        for m in prog.modules.values():
            for n in ast.walk(m.tree):
                if isinstance(n, ast.Call):
                    for k in n.keywords:
                        cache.add(k.arg)  # None: **kwargs somewhere (ignored: it carries caller-chosen names)
        prog.__dict__["_kw_anywhere"] = cache
    return name in cache


def optional_collaborator_params(prog, fi):
    """parameters of fi with default None that nothing in the package supplies and that the body only uses to fall back
    to a default (`p if p is not None else D`, `p or D`): for every caller of the package they are None"""
    a = fi.node.args
    pos = a.posonlyargs + a.args
    pairs = list(zip(pos[len(pos) - len(a.defaults):], a.defaults)) + [(x, d) for x, d in zip(a.kwonlyargs, a.kw_defaults) if d is not None]
    cands = [x.arg for x, d in pairs if isinstance(d, ast.Constant) and d.value is None]
    if not cands:
        return []
    par = parents_map(fi.node)
    out = []
    names_pos = [x.arg for x in pos]
    for p in cands:
        loads = [n for n in ast.walk(fi.node) if isinstance(n, ast.Name) and n.id == p and isinstance(n.ctx, ast.Load)]
        stores = [n for n in ast.walk(fi.node) if isinstance(n, ast.Name) and n.id == p and isinstance(n.ctx, (ast.Store, ast.Del))]
        if not loads:
            continue
        # `if p is None: p = D` as a top-level statement: from there on p is D
        rebind = [st for st in fi.node.body if _rebinding_fallback(st, p)]
        if rebind:
            first = rebind[0]
            inside = {id(x) for x in ast.walk(first)}
            if len(stores) != 1 or id(stores[0]) not in inside or any(id(n) not in inside and n.lineno <= first.lineno for n in loads):
                continue
        else:
            if stores or not all(_is_fallback_use(par, n, lambda e, p=p: isinstance(e, ast.Name) and e.id == p) for n in loads):
                continue
        if _keyword_supplied_anywhere(prog, p):
            continue
        # positionally: only when p is keyword-only or no call of the function reaches its position
        if p in names_pos:
            idx = names_pos.index(p) - (1 if fi.cls is not None and not fi.is_static else 0)
            reached = False
            for m in prog.modules.values():
                for n in ast.walk(m.tree):
                    if isinstance(n, ast.Call) and not isinstance(n.func, ast.Lambda):
                        r = prog.resolve(m, n.func) if isinstance(n.func, (ast.Name, ast.Attribute)) else None
                        hit = (r == fi.qual) or (fi.cls is not None and fi.name == "__init__" and r in prog.classes and fi.cls.qual in prog.classes[r].mro) or (fi.cls is not None and isinstance(n.func, ast.Attribute) and n.func.attr == fi.name)
                        if hit and (len(n.args) > idx or any(isinstance(x, ast.Starred) for x in n.args)):
                            reached = True
            if reached:
                continue
        out.append(p)
    return out


def optional_collaborator_field(prog, cls, attr):
    """is self.<attr> an optional collaborator: stored once, in __init__, from a parameter with default None that nothing
    in the package supplies, and read everywhere only to fall back to a default -> it is None"""
    key = (cls.qual, attr)
    cache = prog.__dict__.setdefault("_collab_fields", {})
    if key in cache:
        return cache[key]
    cache[key] = False
    stores = []
    loads = []
    # the class family: cls, its bases and its subclasses (another class's attribute of the same name is another thing)
    family = [c for c in prog.classes.values() if c.qual in cls.mro or cls.qual in c.mro]
    for c in family:
        for n in ast.walk(c.node):
            if isinstance(n, ast.Attribute) and n.attr == attr and not any(n is x[1] for x in stores + loads):
                (stores if isinstance(n.ctx, (ast.Store, ast.Del)) else loads).append((c.module, n))
    if len(stores) != 1 or dotted(stores[0][1].value) != "self" or not loads:
        return False
    if attr.startswith("_") is False:
        # a public attribute may be set from outside the class
        for m in prog.modules.values():
            for n in ast.walk(m.tree):
                if isinstance(n, ast.Attribute) and n.attr == attr and isinstance(n.ctx, (ast.Store, ast.Del)) and not any(n is x[1] for x in stores):
                    return False
    init = None
    for q in cls.mro:
        c = prog.classes.get(q)
        f = prog.lookup_method(c, "__init__") if c is not None else None
        if f is not None and f.cls is c:
            for st in f.node.body:
                tg = st.targets[0] if isinstance(st, ast.Assign) and len(st.targets) == 1 else st.target if isinstance(st, ast.AnnAssign) and st.value is not None else None
                if tg is stores[0][1] and isinstance(st.value, ast.Name):
                    init, pname = f, st.value.id
    if init is None:
        return False
    a = init.node.args
    pos = a.posonlyargs + a.args
    dflt = dict(zip([x.arg for x in pos[len(pos) - len(a.defaults):]], a.defaults))
    dflt.update({x.arg: d for x, d in zip(a.kwonlyargs, a.kw_defaults) if d is not None})
    d = dflt.get(pname)
    if not (isinstance(d, ast.Constant) and d.value is None) or _keyword_supplied_anywhere(prog, pname):
        return False
    if pname in [x.arg for x in pos]:
        idx = [x.arg for x in pos].index(pname) - 1
        for m in prog.modules.values():
            for n in ast.walk(m.tree):
                if isinstance(n, ast.Call) and isinstance(n.func, (ast.Name, ast.Attribute)):
                    r = prog.resolve(m, n.func)
                    ctor = r in prog.classes and init.cls.qual in prog.classes[r].mro
                    sup = isinstance(n.func, ast.Attribute) and n.func.attr == "__init__"
                    if (ctor or sup) and (len(n.args) > idx or any(isinstance(x, ast.Starred) for x in n.args)):
                        return False
    # the parameter itself is only stored
    if [n for n in ast.walk(init.node) if isinstance(n, ast.Name) and n.id == pname and isinstance(n.ctx, ast.Load)].__len__() != 1:
        return False
    for m, n in loads:
        if dotted(n.value) != "self":
            return False
        par = parents_map(m.tree)
        if not _is_fallback_use(par, n, lambda e: isinstance(e, ast.Attribute) and e.attr == attr and dotted(e.value) == "self"):
            return False
    cache[key] = True
    return True


def flat(prog, fi, awaited=True, depth=2, sync=False):
    """fi with the private helpers it calls / awaits as statements expanded in place (a FuncInfo; fi itself when there is
    nothing to expand).  For shape rules: extracting a block into a private (co)routine does not change what runs."""
    if fi is None:
        return None
    memo = prog.__dict__.setdefault("_flat_memo", {})
    key = (fi.qual, awaited, depth, sync)
    if key not in memo:
        node = flatten_helpers(prog, fi, depth=depth, awaited=awaited, sync=sync)
        if ast.dump(node) != ast.dump(fi.node):
            from .index import FuncInfo

            for x in ast.walk(node):
                if not hasattr(x, "_file"):
                    x._file = getattr(fi.node, "_file", None)
            memo[key] = FuncInfo(fi.qual, node, fi.module, fi.cls)
        else:
            memo[key] = fi
    return memo[key]
