"""
Slot discovery (DESIGN.md 2.2): private attribute and helper names are *discovered* from the structure of
the code around the public anchors, so that a consistent rename of a private name changes no verdict.
Every function returns the name (or FuncInfo) and raises Undecided when the structure is not found.
"""
import ast
from functools import lru_cache

from . import util
from .index import Program, dotted
from .report import Undecided

META = "cobald.daemon.runners.meta_runner:MetaRunner"
SERVICE_RUNNER = "cobald.daemon.runners.service:ServiceRunner"
SERVICE_UNIT = "cobald.daemon.runners.service:ServiceUnit"
BASE_RUNNER = util.BASE_RUNNER


def _self_attr(node):
    """'x' for the expression self.x"""
    if isinstance(node, ast.Attribute) and isinstance(node.value, ast.Name) and node.value.id == "self":
        return node.attr
    return None


_cache = {}


def _memo(prog, key, fn):
    k = (id(prog), key)
    if k not in _cache:
        _cache[k] = fn()
    return _cache[k]


# ---------------------------------------------------------------------- ServiceRunner
def service_meta(prog: Program) -> str:
    """the field of ServiceRunner holding the MetaRunner"""

    def find():
        cls = prog.cls(SERVICE_RUNNER)
        for attr, ty in cls.field_types.items():
            if ty == META:
                return attr
        raise Undecided("ServiceRunner has no field of type MetaRunner", cls.node)

    return _memo(prog, "service_meta", find)


def shutdown_flag(prog: Program) -> str:
    """the attribute ServiceRunner.shutdown sets to True"""

    def find():
        sd = prog.method(SERVICE_RUNNER, "shutdown")
        for n in ast.walk(sd.node):
            if isinstance(n, ast.Assign) and isinstance(n.value, ast.Constant) and n.value.value is True:
                for t in n.targets:
                    if _self_attr(t):
                        return _self_attr(t)
        raise Undecided("shutdown() sets no request flag", sd.node)

    return _memo(prog, "shutdown_flag", find)


def shutdown_event(prog: Program) -> str:
    """the event ServiceRunner.shutdown waits for (None: it waits for none)"""

    def find():
        sd = prog.method(SERVICE_RUNNER, "shutdown")
        for n in ast.walk(sd.node):
            if isinstance(n, ast.Call) and isinstance(n.func, ast.Attribute) and n.func.attr == "wait" and _self_attr(n.func.value):
                return _self_attr(n.func.value)
        return None  # shutdown() waits for nothing: the obligations on the event are vacuous

    return _memo(prog, "shutdown_event", find)


def started_flag(prog: Program) -> str:
    """the attribute the public property ServiceUnit.running returns"""

    def find():
        cls = prog.cls(SERVICE_UNIT)
        g = prog.pick(cls.methods.get("running", []), "getter")
        if g is not None:
            for n in ast.walk(g.node):
                v = n.value if isinstance(n, ast.Return) else None
                if isinstance(v, ast.Call) and getattr(v.func, "id", None) == "bool" and len(v.args) == 1:
                    v = v.args[0]  # bool(self._started)
                if v is not None and _self_attr(v):
                    return _self_attr(v)
        raise Undecided("ServiceUnit.running does not return an attribute", cls.node)

    return _memo(prog, "started_flag", find)


# ---------------------------------------------------------------------- MetaRunner
def runners_map(prog: Program) -> str:
    """the mapping MetaRunner.run_payload subscripts with the flavour"""

    def find():
        rp = prog.method(META, "run_payload")
        for n in ast.walk(rp.node):
            if isinstance(n, ast.Subscript) and _self_attr(n.value):
                return _self_attr(n.value)
        raise Undecided("MetaRunner.run_payload does not look a runner up in a mapping", rp.node)

    return _memo(prog, "runners_map", find)


def queues_map(prog: Program) -> str:
    """the mapping MetaRunner.register_payload queues payloads in (the other mapping it uses)"""

    def find():
        reg = prog.method(META, "register_payload")
        r = runners_map(prog)
        # register_payload and the own synchronous helpers it delegates to (_queue_payloads, _start_payloads, ...)
        fns, todo = [], [reg]
        while todo:
            f = todo.pop(0)
            if f in fns:
                continue
            fns.append(f)
            for n in ast.walk(f.node):
                if isinstance(n, ast.Call) and _self_attr(n.func):
                    g = prog.lookup_method(reg.cls, _self_attr(n.func))
                    if g is not None and g.cls is reg.cls and not g.is_async and g.name != "register_payload":
                        todo.append(g)
        for n in (x for f in fns for x in ast.walk(f.node)):
            a = None
            if isinstance(n, ast.Call) and isinstance(n.func, ast.Attribute) and n.func.attr in ("setdefault", "get") and _self_attr(n.func.value):
                a = _self_attr(n.func.value)
            elif isinstance(n, ast.Subscript) and _self_attr(n.value):
                a = _self_attr(n.value)
            if a and a != r:
                return a
        raise Undecided("MetaRunner.register_payload queues payloads in no mapping", reg.node)

    return _memo(prog, "queues_map", find)


def supervisor(prog: Program):
    """the coroutine MetaRunner.run drives with asyncio.run"""

    def find():
        run = prog.method(META, "run")
        for n in ast.walk(run.node):
            if isinstance(n, ast.Call) and prog.resolve(run.module, n.func) == "ext:asyncio.run" and n.args and isinstance(n.args[0], ast.Call):
                a = _self_attr(n.args[0].func)
                if a:
                    fi = prog.method(META, a)
                    # own coroutines it awaits as statements (`await self._watch_runners(tasks)`) run in place
                    flat = util.flatten_helpers(prog, fi, awaited=True)
                    if ast.dump(flat) != ast.dump(fi.node):
                        from .index import FuncInfo

                        for x in ast.walk(flat):
                            x._file = getattr(fi.node, "_file", None)
                        return FuncInfo(fi.qual, flat, fi.module, fi.cls)
                    return fi
        raise Undecided("MetaRunner.run does not drive an own coroutine with asyncio.run", run.node)

    return _memo(prog, "supervisor", find)


def launcher(prog: Program):
    """the own coroutine that creates one task per runner type"""

    def find():
        cls = prog.cls(META)
        for fis in cls.methods.values():
            for fi in fis:
                if fi.is_async and any(isinstance(n, ast.Attribute) and n.attr == "create_task" for n in ast.walk(fi.node)) and any(isinstance(n, ast.Attribute) and n.attr == "runner_types" for n in ast.walk(fi.node)):
                    return fi
        raise Undecided("MetaRunner has no coroutine creating the runner tasks", cls.node)

    return _memo(prog, "launcher", find)


def unqueuer(prog: Program):
    """the own coroutine that re-registers the queued payloads"""

    def find():
        cls = prog.cls(META)
        for fis in cls.methods.values():
            for fi in fis:
                if fi.is_async and any(isinstance(n, ast.Call) and _self_attr(n.func) == "register_payload" for n in ast.walk(fi.node)):
                    return fi
        # ... or through a private synchronous helper it calls per queue
        for fis in cls.methods.values():
            for fi in fis:
                if not fi.is_async:
                    continue
                for n in ast.walk(fi.node):
                    g = prog.lookup_method(cls, _self_attr(n.func)) if isinstance(n, ast.Call) and _self_attr(n.func) else None
                    if g is not None and not g.is_async and g.name.startswith("_") and any(isinstance(x, ast.Call) and _self_attr(x.func) == "register_payload" for x in ast.walk(g.node)):
                        return fi
        raise Undecided("MetaRunner has no coroutine flushing the queue", cls.node)

    return _memo(prog, "unqueuer", find)


def stopped_event(prog: Program) -> str:
    """the threading.Event BaseRunner creates in its constructor"""

    def find():
        cls = prog.cls(BASE_RUNNER)
        init = prog.lookup_method(cls, "__init__")
        for n in ast.walk(init.node):
            if isinstance(n, ast.Assign) and isinstance(n.value, ast.Call) and prog.resolve(cls.module, n.value.func) == "ext:threading.Event":
                for t in n.targets:
                    if _self_attr(t):
                        return _self_attr(t)
        raise Undecided("BaseRunner creates no threading.Event", cls.node)

    return _memo(prog, "stopped_event", find)


def trio_token(prog: Program, cls) -> str:
    """the attribute assigned from trio.lowlevel.current_trio_token()"""
    for fis in cls.methods.values():
        for fi in fis:
            for n in ast.walk(fi.node):
                if isinstance(n, ast.Assign) and isinstance(n.value, ast.Call) and prog.resolve(cls.module, n.value.func) == "ext:trio.lowlevel.current_trio_token":
                    for t in n.targets:
                        if _self_attr(t):
                            return _self_attr(t)
    raise Undecided("%s never stores the trio token" % cls.qual, cls.node)


# ---------------------------------------------------------------------- daemon entry
def load_services(prog: Program):
    """the coroutine function `run` adopts as the configuration loader (directly or bound by functools.partial)"""

    def find():
        run = prog.func("cobald.daemon.core.main:run")
        # (private helpers of the module that run() calls as statements are read in place: _start_services(...))
        run_node = util.flatten_helpers(prog, run)
        partials = {}
        for n in ast.walk(run_node):
            if isinstance(n, ast.Assign) and isinstance(n.value, ast.Call) and prog.resolve(run.module, n.value.func) == "ext:functools.partial" and n.value.args:
                for t in n.targets:
                    if isinstance(t, ast.Name):
                        partials[t.id] = n.value.args[0]
        for n in ast.walk(run_node):
            if isinstance(n, ast.Call) and isinstance(n.func, ast.Attribute) and n.func.attr == "adopt" and n.args:
                # the payload is the first argument; a function found in a later position is still "the loader"
                # (the rule then reports that it is not what is adopted)
                for a in n.args:
                    if isinstance(a, ast.Call) and prog.resolve(run.module, a.func) == "ext:functools.partial" and a.args:
                        a = a.args[0]
                    if isinstance(a, ast.Name) and a.id in partials:
                        a = partials[a.id]
                    if isinstance(a, ast.Name):
                        r = prog.resolve(run.module, a)
                        if r in prog.functions:
                            return prog.functions[r]
        raise Undecided("run() adopts no loader function", run.node)

    return _memo(prog, "load_services", find)


# ---------------------------------------------------------------------- controllers / decorators / monitors
def attr_from_param(prog: Program, cls, param: str):
    """the attribute __init__ assigns directly from the constructor parameter `param`"""
    init = prog.lookup_method(cls, "__init__")
    if init is not None:
        for t, v in util.simple_assignments(init.node):
            if isinstance(v, ast.Name) and v.id == param and _self_attr(t):
                return _self_attr(t)
    raise Undecided("%s.__init__ stores its parameter %r in no attribute" % (cls.qual, param), cls.node)


def attr_from_expr(prog: Program, cls, pred, what):
    """the attribute __init__ assigns from an expression satisfying pred(value node, source text)"""
    init = prog.lookup_method(cls, "__init__")
    if init is not None:
        for t, v in util.simple_assignments(init.node):
            if pred(v, util.unparse(v)) and _self_attr(t):
                return _self_attr(t)
    raise Undecided("%s.__init__ sets no %s" % (cls.qual, what), cls.node)


def logger_attr(prog: Program, cls) -> str:
    """the attribute assigned from logging.getLogger(...)"""
    for fis in cls.methods.values():
        for fi in fis:
            for n in ast.walk(fi.node):
                if isinstance(n, ast.Assign) and isinstance(n.value, ast.Call) and prog.resolve(cls.module, n.value.func) == "ext:logging.getLogger":
                    for t in n.targets:
                        if _self_attr(t):
                            return _self_attr(t)
    raise Undecided("%s never stores a logger" % cls.qual, cls.node)
