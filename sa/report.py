"""
Verdicts, obligations, evidence, replay files and known findings.

An *obligation* is a (rule id, construct) pair evaluated against the current
source tree.  See DESIGN.md section 2.1 for the verdict semantics.
"""
import json
import os
import re
import time
from dataclasses import dataclass, field
from typing import Any, List, Optional

VERIF = os.path.dirname(os.path.dirname(os.path.abspath(__file__)))

DISCHARGED = "discharged"
VIOLATION = "violation"
UNDECIDED = "undecided"
ANCHOR_MISSING = "anchor-missing"
SKIPPED = "skipped-unrecognised"  # aux obligations only


class AnchorMissing(Exception):
    """A named anchor of the public surface cannot be resolved"""


class Undecided(Exception):
    """The analysed construct matches neither an accepted nor a known-bad idiom"""

    def __init__(self, msg, node=None):
        super().__init__(msg)
        self.node = node


def norm_stmt(text: str) -> str:
    """normalised statement text used in finding keys (never line numbers)"""
    return re.sub(r"\s+", " ", text or "").strip()[:160]


@dataclass
class Ob:
    rule: str
    construct: str
    status: str
    detail: str = ""
    loc: str = ""
    stmt: str = ""
    input: Any = None
    aux: bool = False

    @property
    def key(self):
        return "%s|%s|%s" % (self.rule, self.construct, norm_stmt(self.stmt))

    def as_json(self):
        d = {
            "rule": self.rule,
            "construct": self.construct,
            "status": self.status,
            "loc": self.loc,
        }
        if self.detail:
            d["detail"] = self.detail
        if self.input is not None:
            d["abstract_input"] = self.input
        if self.stmt:
            d["stmt"] = norm_stmt(self.stmt)
        if self.aux:
            d["aux"] = True
        return d


class Check:
    """Collector handed to the rule modules of one property"""

    def __init__(self, pid: str, program, tier: str = "quick"):
        self.pid = pid
        self.program = program
        self.tier = tier
        self.obs: List[Ob] = []
        self.evaluations = 0  # abstract inputs / paths evaluated
        self.facts = {}  # library facts and whether they were cross-read
        self.notes: List[str] = []
        self.floors = {}  # rule -> (found, floor)
        self.analysed = set()  # constructs inspected

    # --- recording -----------------------------------------------------
    def _loc(self, node, mod=None):
        if node is None:
            return ""
        if isinstance(node, str):
            return node
        path = getattr(node, "_file", None) or (mod.relpath if mod is not None else "?")
        return "%s:%s" % (path, getattr(node, "lineno", "?"))

    def _stmt(self, node):
        import ast

        if node is None or isinstance(node, str):
            return ""
        try:
            text = ast.unparse(node)
        except Exception:
            return ""
        return text.split("\n")[0]

    def ok(self, rule, construct, detail="", node=None, input=None, aux=False):
        self.obs.append(
            Ob(rule, construct, DISCHARGED, detail, self._loc(node), self._stmt(node), input, aux)
        )
        self.analysed.add(construct)

    def bad(self, rule, construct, detail, node=None, input=None, stmt=None, aux=False):
        ob = self._bad(rule, construct, detail, node, input, stmt, aux)
        for old in self.obs:
            if old.status == VIOLATION and old.key == ob.key:
                if input is not None and old.input != input:
                    old.input = "%s; %s" % (old.input, input) if old.input is not None else input
                return
        self.obs.append(ob)
        self.analysed.add(construct)

    def _bad(self, rule, construct, detail, node=None, input=None, stmt=None, aux=False):
        return (
            Ob(
                rule,
                construct,
                VIOLATION,
                detail,
                self._loc(node),
                stmt if stmt is not None else self._stmt(node),
                input,
                aux,
            )
        )

    def undecided(self, rule, construct, detail, node=None, aux=False):
        status = SKIPPED if aux else UNDECIDED
        if any(o.status == status and o.rule == rule and o.construct == construct and o.detail == detail for o in self.obs):
            return
        self.obs.append(Ob(rule, construct, status, detail, self._loc(node), self._stmt(node), None, aux))

    def missing(self, rule, construct, detail=""):
        self.obs.append(Ob(rule, construct, ANCHOR_MISSING, detail))

    def floor(self, rule, found, floor):
        """instance floor: a rule matching fewer instances than confirmed by hand is broken"""
        self.floors[rule] = (found, floor)
        if found < floor:
            self.obs.append(
                Ob(rule, "<instance-floor>", UNDECIDED, "rule matched %d instances, floor is %d" % (found, floor))
            )

    def count(self, n=1):
        self.evaluations += n

    def guard(self, rule, construct, fn, *args, aux=False, **kw):
        """run one obligation; turn engine exceptions into verdicts"""
        try:
            return fn(*args, **kw)
        except AnchorMissing as e:
            self.missing(rule, construct, str(e))
        except Undecided as e:
            self.undecided(rule, construct, str(e), node=e.node, aux=aux)
        return None


def load_known():
    path = os.path.join(VERIF, "known_findings.json")
    try:
        with open(path) as f:
            return json.load(f)
    except FileNotFoundError:
        return {"findings": []}


def finish(chk: Check, seed: int, started: float, selftest=None, extra=None) -> int:
    """print the report, write evidence and replay files, return the exit code"""
    pid = chk.pid
    known = load_known()
    open_keys = {}
    for f in known.get("findings", []):
        if f.get("status") == "open" and f.get("property") == pid:
            open_keys[f["key"]] = f
    violations, knowns, undecided = [], [], []
    for ob in chk.obs:
        if ob.status == VIOLATION:
            if ob.key in open_keys:
                knowns.append(ob)
            else:
                violations.append(ob)
        elif ob.status in (UNDECIDED, ANCHOR_MISSING):
            undecided.append(ob)
    discharged = [ob for ob in chk.obs if ob.status == DISCHARGED]
    skipped = [ob for ob in chk.obs if ob.status == SKIPPED]

    if os.environ.get("VERIF_VERBOSE") == "1":
        for ob in chk.obs:
            print("   [%s] %s %s %s -- %s" % (ob.status, ob.rule, ob.construct, ob.loc, ob.detail))
    evdir = os.environ.get("VERIF_EVIDENCE_DIR") or os.path.join(VERIF, "evidence")
    os.makedirs(os.path.join(evdir, "replay"), exist_ok=True)
    for ob in knowns:
        print("KNOWN-FINDING: property=%s %s %s: %s" % (pid, ob.rule, ob.construct, ob.detail))
    for ob in undecided:
        print(
            "ANALYSIS-ERROR property=%s %s rule=%s construct=%s %s: %s"
            % (pid, ob.status, ob.rule, ob.construct, ob.loc, ob.detail)
        )
    for k, ob in enumerate(violations):
        rp = os.path.join(evdir, "replay", "%s-%d.json" % (pid, k))
        with open(rp, "w") as f:
            json.dump({"property": pid, "key": ob.key, **ob.as_json()}, f, indent=1)
        print("  violated %s at %s in %s: %s" % (ob.rule, ob.loc, ob.construct, ob.detail))
        if ob.input is not None:
            print("    abstract input: %s" % (ob.input,))
        print("VIOLATION property=%s replay=%s" % (pid, rp))

    nontrivial = {(ob.rule, ob.construct) for ob in chk.obs if ob.status in (DISCHARGED, VIOLATION)}
    rules = sorted({ob.rule for ob in chk.obs})
    samples = [ob.as_json() for ob in (violations + knowns + undecided)[:6]]
    seen_rules = set()
    for ob in discharged:
        if ob.rule not in seen_rules and len(samples) < 14:
            seen_rules.add(ob.rule)
            samples.append(ob.as_json())
    prog = chk.program
    coverage = {
        "explanation": "static analysis of /repo's source (never executed): rule x construct obligations "
        "evaluated by AST queries, a path-sensitive abstract interpreter over finite domains, "
        "origin terms and who-may-call queries; rules applied: " + ", ".join(rules),
        "obligations": len(chk.obs),
        "discharged": len(discharged),
        "violated": len(violations),
        "known_findings": len(knowns),
        "undecided": len(undecided),
        "aux_skipped": len(skipped),
        "evaluations": max(chk.evaluations, len(chk.obs), 1),
        "distinct_nontrivial": len(nontrivial),
        "rule": "one evaluation = one abstract input / path / call site examined for one obligation; "
        "distinct_nontrivial = distinct (rule, construct) pairs that inspected at least one construct",
        "samples": samples or [{"note": "no obligations"}],
        "instance_floors": {k: {"found": v[0], "floor": v[1]} for k, v in chk.floors.items()},
        "indexed": prog.stats() if prog is not None else {},
        "constructs_analysed": sorted(chk.analysed)[:80],
        "library_facts": chk.facts,
        "trusted_base": [
            "CPython ast parser",
            "the frozen library-fact table of sa/libfacts.py (cross-read where noted)",
            "the idiom tables of the rule modules",
        ],
        "checker_cmd": "./check %s --tier %s" % (pid, chk.tier),
        "exhaustive": False,
        "notes": chk.notes,
    }
    if selftest is not None:
        coverage["selftest"] = selftest
    if extra:
        coverage.update(extra)
    ev = {
        "property_id": pid,
        "tier": chk.tier,
        "seed": seed,
        "level": "other",
        "coverage": coverage,
        "assumptions": [
            "asyncio / trio / PyYAML / inspect / toposort behave as recorded in sa/libfacts.py",
            "no monkey-patching of the analysed classes at run time; plugins and payloads are arbitrary callables",
            "implicit exceptions (MemoryError, failing log calls) are outside the designated-throw-site rules",
        ],
        "wall_s": round(time.time() - started, 3),
        "violations": len(violations),
    }
    with open(os.path.join(evdir, "%s.json" % pid), "w") as f:
        json.dump(ev, f, indent=1, default=str)
    print(
        "%s: %d obligations, %d discharged, %d violated, %d known, %d undecided, %d aux-skipped (%.2fs)"
        % (pid, len(chk.obs), len(discharged), len(violations), len(knowns), len(undecided), len(skipped), ev["wall_s"])
    )
    if violations:
        return 1
    if undecided:
        return 2
    return 0
