"""
E1 -- program index: modules, imports, classes (C3 MRO), functions, fields.

Everything is rebuilt from the working tree on every run.  Qualified names:

* package objects   ``cobald.daemon.runners.service:ServiceRunner.accept``
* external objects  ``ext:trio.from_thread.run``
"""
import ast
import os
from typing import Dict, List, Optional

from .report import AnchorMissing, Undecided

FuncNode = (ast.FunctionDef, ast.AsyncFunctionDef)


def dotted(node) -> Optional[str]:
    if isinstance(node, ast.Name):
        return node.id
    if isinstance(node, ast.Attribute):
        base = dotted(node.value)
        return None if base is None else base + "." + node.attr
    return None


class Module:
    def __init__(self, name, path, relpath, src, is_pkg):
        self.name = name
        self.path = path
        self.relpath = relpath
        self.src = src
        self.is_pkg = is_pkg
        self.tree = ast.parse(src, filename=path)
        from .normalise import normalise_module

        self.normalised = normalise_module(self.tree) if name != "<setup>" else []
        for n in ast.walk(self.tree):
            n._file = relpath
        self.imports: Dict[str, str] = {}  # local name -> 'mod' | 'mod:obj' (unresolved target)
        self.defs: Dict[str, ast.AST] = {}  # top level defs (functions, classes, assigned names)
        self.package = name if is_pkg else name.rpartition(".")[0]


class FuncInfo:
    def __init__(self, qual, node, module, cls=None, parent=None):
        self.qual = qual  # 'mod:Class.meth' / 'mod:func' / 'mod:outer.inner'
        self.node = node
        self.module = module
        self.cls = cls  # ClassInfo or None
        self.parent = parent  # enclosing FuncInfo or None
        self.is_async = isinstance(node, ast.AsyncFunctionDef)

    @property
    def name(self):
        return self.node.name

    @property
    def short(self):
        return self.qual.split(":", 1)[1]

    def params(self, skip_self=True):
        a = self.node.args
        names = [x.arg for x in a.posonlyargs + a.args]
        if skip_self and self.cls is not None and names and not self.is_static:
            names = names[1:]
        return names

    @property
    def is_static(self):
        return any(dotted(d) == "staticmethod" for d in self.node.decorator_list)

    @property
    def is_classmethod(self):
        return any(dotted(d) == "classmethod" for d in self.node.decorator_list)

    def decorator_names(self):
        return [dotted(d.func if isinstance(d, ast.Call) else d) for d in self.node.decorator_list]

    def __repr__(self):
        return "<func %s>" % self.qual


class ClassInfo:
    def __init__(self, qual, node, module):
        self.qual = qual
        self.node = node
        self.module = module
        self.bases: List[str] = []  # resolved qualified names (package or ext:)
        self.mro: List[str] = []
        self.methods: Dict[str, List[FuncInfo]] = {}  # name -> defs in source order (property get/set, overloads)
        self.class_attrs: Dict[str, ast.AST] = {}
        self.fields: Dict[str, List[ast.AST]] = {}  # self.<name> stores: name -> list of Assign nodes
        self.field_types: Dict[str, str] = {}  # name -> qualified class
        self.decorators: List[str] = []  # resolved decorator callee names

    @property
    def name(self):
        return self.node.name

    def __repr__(self):
        return "<class %s>" % self.qual


class Program:
    def __init__(self, root="/repo"):
        self.root = root
        self.modules: Dict[str, Module] = {}
        self.classes: Dict[str, ClassInfo] = {}
        self.functions: Dict[str, FuncInfo] = {}
        self._by_node = {}
        self._load()
        self._index()

    # ------------------------------------------------------------------ loading
    def _load(self):
        src_root = os.path.join(self.root, "src")
        pkg_root = os.path.join(src_root, "cobald")
        if not os.path.isdir(pkg_root):
            raise AnchorMissing("package directory %s does not exist" % pkg_root)
        for dirpath, dirnames, filenames in os.walk(pkg_root):
            dirnames[:] = sorted(d for d in dirnames if d != "__pycache__")
            for fn in sorted(filenames):
                if not fn.endswith(".py"):
                    continue
                path = os.path.join(dirpath, fn)
                rel = os.path.relpath(path, src_root)
                parts = rel[:-3].split(os.sep)
                is_pkg = parts[-1] == "__init__"
                if is_pkg:
                    parts = parts[:-1]
                name = ".".join(parts)
                with open(path, encoding="utf-8") as f:
                    src = f.read()
                self.modules[name] = Module(name, path, os.path.relpath(path, self.root), src, is_pkg)
        # whole-package normalisation (needs every module parsed): private base classes / mixins read in place
        from .normalise import flatten_private_bases

        got = flatten_private_bases({m.name: (m.tree, m.is_pkg) for m in self.modules.values()})
        if got:
            for m in self.modules.values():
                for n in ast.walk(m.tree):
                    if not hasattr(n, "_file"):
                        n._file = m.relpath
            self.__dict__.setdefault("private_bases_read_in_place", []).extend(got)
        # optional collaborators nobody injects
        from .normalise import eliminate_optional_collaborators

        for _round in range(4):  # one candidate per function and pass
            got = eliminate_optional_collaborators({m.name: m.tree for m in self.modules.values()})
            if not got:
                break
            for m in self.modules.values():
                for n in ast.walk(m.tree):
                    if not hasattr(n, "_file"):
                        n._file = m.relpath
            self.__dict__.setdefault("collaborators_read_as_default", []).extend(got)
        setup = os.path.join(self.root, "setup.py")
        if os.path.exists(setup):
            with open(setup, encoding="utf-8") as f:
                self.setup_module = Module("<setup>", setup, "setup.py", f.read(), False)
        else:
            self.setup_module = None

    def _abs_import(self, mod: Module, level: int, name: Optional[str]) -> str:
        if level == 0:
            return name or ""
        base = mod.package.split(".") if mod.package else []
        if level > 1:
            base = base[: len(base) - (level - 1)]
        return ".".join(base + ([name] if name else []))

    def _index(self):
        for mod in self.modules.values():
            self._index_imports(mod, mod.tree.body)
        for mod in self.modules.values():
            self._index_defs(mod)
        for cls in self.classes.values():
            cls.bases = [self._resolve_base(cls.module, b) for b in cls.node.bases]
            cls.decorators = [
                self.resolve(cls.module, d.func if isinstance(d, ast.Call) else d) for d in cls.node.decorator_list
            ]
        for cls in self.classes.values():
            cls.mro = self._c3(cls.qual)
        for cls in self.classes.values():
            self._index_fields(cls)

    def _index_imports(self, mod, body):
        for st in body:
            if isinstance(st, ast.Import):
                for a in st.names:
                    if a.asname:
                        mod.imports[a.asname] = a.name
                    else:
                        mod.imports[a.name.split(".")[0]] = a.name.split(".")[0]
            elif isinstance(st, ast.ImportFrom):
                base = self._abs_import(mod, st.level, st.module)
                for a in st.names:
                    mod.imports[a.asname or a.name] = base + ":" + a.name
            elif isinstance(st, ast.If):
                # `if TYPE_CHECKING:` blocks only add typing names; index the else branch
                test = dotted(st.test)
                if test and test.endswith("TYPE_CHECKING"):
                    self._index_imports(mod, st.orelse)
                else:
                    self._index_imports(mod, st.body)
                    self._index_imports(mod, st.orelse)
            elif isinstance(st, ast.Try):
                self._index_imports(mod, st.body)

    def _index_defs(self, mod):
        def visit_func(node, prefix, cls, parent):
            qual = "%s:%s%s" % (mod.name, prefix, node.name)
            fi = FuncInfo(qual, node, mod, cls, parent)
            # several defs may share a name (property getter/setter, overloads): the plain
            # qualified name keeps the last one, cls.methods keeps all of them
            self.functions[qual] = fi
            self._by_node[id(node)] = fi
            if cls is not None and parent is None:
                cls.methods.setdefault(node.name, []).append(fi)
            for st in node.body:
                visit_nested(st, prefix + node.name + ".", fi)
            return fi

        def visit_nested(st, prefix, parent):
            if isinstance(st, FuncNode):
                visit_func(st, prefix, None, parent)
                return
            if isinstance(st, ast.ClassDef):
                return
            for sub in ast.iter_child_nodes(st):
                if isinstance(sub, (ast.stmt, ast.ExceptHandler)):
                    visit_nested(sub, prefix, parent)

        for st in mod.tree.body:
            if isinstance(st, FuncNode):
                mod.defs[st.name] = st
                visit_func(st, "", None, None)
            elif isinstance(st, ast.ClassDef):
                mod.defs[st.name] = st
                ci = ClassInfo("%s:%s" % (mod.name, st.name), st, mod)
                self.classes[ci.qual] = ci
                self._by_node[id(st)] = ci
                for m in st.body:
                    if isinstance(m, FuncNode):
                        visit_func(m, st.name + ".", ci, None)
                    elif isinstance(m, ast.Assign):
                        for t in m.targets:
                            if isinstance(t, ast.Name):
                                ci.class_attrs[t.id] = m.value
                    elif isinstance(m, ast.AnnAssign) and isinstance(m.target, ast.Name):
                        ci.class_attrs[m.target.id] = m.value if m.value is not None else m.annotation
            elif isinstance(st, ast.Assign):
                for t in st.targets:
                    if isinstance(t, ast.Name):
                        mod.defs[t.id] = st
            elif isinstance(st, ast.AnnAssign) and isinstance(st.target, ast.Name):
                mod.defs[st.target.id] = st
            elif isinstance(st, (ast.If, ast.Try)):
                # names bound in a top-level `if TYPE_CHECKING: ... else: ...` / `try: import ... except ImportError:`
                # block are module names too (any arm may have bound them)
                for sub in ast.walk(st):
                    if isinstance(sub, (ast.FunctionDef, ast.AsyncFunctionDef, ast.ClassDef, ast.Lambda)):
                        continue
                    if isinstance(sub, ast.Assign):
                        for t in sub.targets:
                            if isinstance(t, ast.Name):
                                mod.defs.setdefault(t.id, sub)
                    elif isinstance(sub, ast.AnnAssign) and isinstance(sub.target, ast.Name):
                        mod.defs.setdefault(sub.target.id, sub)

    def _index_fields(self, cls: ClassInfo):
        for fis in cls.methods.values():
            for fi in fis:
                for n in ast.walk(fi.node):
                    targets = []
                    value = None
                    ann = None
                    if isinstance(n, ast.Assign):
                        targets, value = n.targets, n.value
                    elif isinstance(n, ast.AnnAssign):
                        targets, value, ann = [n.target], n.value, n.annotation
                    elif isinstance(n, ast.AugAssign):
                        targets, value = [n.target], None
                    flat = []
                    for t in targets:
                        if isinstance(t, (ast.Tuple, ast.List)):
                            flat.extend(t.elts)
                        else:
                            flat.append(t)
                    for t in flat:
                        # chained assignment `a = self.x[k] = v` is seen through targets as well
                        if isinstance(t, ast.Attribute) and isinstance(t.value, ast.Name) and t.value.id == "self":
                            cls.fields.setdefault(t.attr, []).append(n)
                            ty = None
                            if ann is not None:
                                ty = self._type_of_annotation(cls.module, ann)
                            # `C() if given is None else given`  /  `given or C()`: one arm says the class
                            arms = [value]
                            if isinstance(value, ast.IfExp):
                                arms = [value.body, value.orelse]
                            elif isinstance(value, ast.BoolOp):
                                arms = list(value.values)
                            for arm in arms:
                                if ty is None and isinstance(arm, ast.Call):
                                    r = self.resolve(cls.module, arm.func)
                                    if r in self.classes:
                                        ty = r
                            if ty is None and isinstance(value, ast.Name):
                                # parameter with an annotation
                                for a in fi.node.args.args + fi.node.args.kwonlyargs:
                                    if a.arg == value.id and a.annotation is not None:
                                        ty = self._type_of_annotation(cls.module, a.annotation)
                            if ty:
                                cls.field_types.setdefault(t.attr, ty)

    def _type_of_annotation(self, mod, ann):
        if isinstance(ann, ast.Constant) and isinstance(ann.value, str):
            try:
                ann = ast.parse(ann.value, mode="eval").body
            except SyntaxError:
                return None
        if isinstance(ann, ast.Subscript):
            base = dotted(ann.value) or ""
            if base.split(".")[-1] == "Optional":
                return self._type_of_annotation(mod, ann.slice)
            return None
        r = self.resolve(mod, ann)
        return r if r in self.classes else None

    # ------------------------------------------------------------------ resolution
    def resolve(self, mod: Module, node_or_dotted, _depth=0) -> Optional[str]:
        """resolve a Name/Attribute chain (or dotted string) used in ``mod`` to a qualified name"""
        d = node_or_dotted if isinstance(node_or_dotted, str) else dotted(node_or_dotted)
        if d is None or _depth > 8:
            return None
        head, _, rest = d.partition(".")
        if head in mod.defs and isinstance(mod.defs[head], (ast.ClassDef,) + FuncNode):
            base = "%s:%s" % (mod.name, head)
            return base + ("." + rest if rest else "")
        if head in mod.imports:
            target = mod.imports[head]
            if ":" in target:
                tmod, obj = target.split(":")
                full = (tmod + "." + obj) if tmod else obj
                if full in self.modules:  # `from . import _pool`
                    return self._resolve_in_module(full, rest, _depth)
                if tmod in self.modules:
                    r = self._resolve_in_module(tmod, obj + ("." + rest if rest else ""), _depth)
                    return r
                return "ext:%s.%s%s" % (tmod, obj, "." + rest if rest else "")
            # plain `import x.y as z` / `import x`
            if target in self.modules or any(m.startswith(target + ".") for m in self.modules):
                # walk as far as modules go
                parts = ([target] + rest.split(".")) if rest else [target]
                modname = parts[0]
                i = 1
                while i < len(parts) and (modname + "." + parts[i]) in self.modules:
                    modname += "." + parts[i]
                    i += 1
                if modname in self.modules:
                    return self._resolve_in_module(modname, ".".join(parts[i:]), _depth)
            return "ext:%s%s" % (target, "." + rest if rest else "")
        if head in mod.defs:
            # a module-level name bound exactly once, at top level, to another name (`_run = trio.from_thread.run`) is
            # that name: imported modules / functions are not rebound at run time any more than the alias is
            st = mod.defs[head]
            if isinstance(st, (ast.Assign, ast.AnnAssign)) and st in mod.tree.body and st.value is not None and dotted(st.value) and dotted(st.value).split(".")[0] != head:
                key = (mod.name, head)
                cache = self.__dict__.setdefault("_alias_once", {})
                if key not in cache:
                    binds = [n for n in ast.walk(mod.tree) if isinstance(n, ast.Name) and n.id == head and isinstance(n.ctx, (ast.Store, ast.Del))]
                    rebound = any(isinstance(n, (ast.Global, ast.Nonlocal)) and head in n.names for n in ast.walk(mod.tree))
                    single = isinstance(st, ast.AnnAssign) or (len(st.targets) == 1 and isinstance(st.targets[0], ast.Name))
                    cache[key] = len(binds) == 1 and not rebound and single
                if cache[key]:
                    r = self.resolve(mod, st.value, _depth + 1)
                    if r is not None and (r.startswith("ext:") or r in self.functions or r in self.classes) and r not in ("ext:math.inf", "ext:math.nan", "ext:math.pi", "ext:math.e"):
                        return r + ("." + rest if rest else "") if r.startswith("ext:") or not rest else r
            return "%s:%s" % (mod.name, d)
        import builtins

        if hasattr(builtins, head):
            return "ext:builtins.%s" % d
        return None

    def _resolve_in_module(self, modname, rest, _depth):
        if not rest:
            return modname
        m = self.modules[modname]
        head, _, tail = rest.partition(".")
        if head in m.defs:
            return "%s:%s" % (modname, rest)
        if head in m.imports:
            return self.resolve(m, rest, _depth + 1)
        if (modname + "." + head) in self.modules:
            return self._resolve_in_module(modname + "." + head, tail, _depth)
        return "%s:%s" % (modname, rest)

    def _resolve_base(self, mod, node):
        if isinstance(node, ast.Subscript):
            node = node.value
        r = self.resolve(mod, node)
        return r or ("ext:?%s" % ast.unparse(node))

    def _c3(self, qual, _stack=()):
        if qual not in self.classes:
            return [qual]
        if qual in _stack:
            raise Undecided("inheritance cycle at %s" % qual)
        cls = self.classes[qual]
        seqs = [self._c3(b, _stack + (qual,)) for b in cls.bases] + [list(cls.bases)]
        out = [qual]
        seqs = [list(s) for s in seqs if s]
        while seqs:
            for s in seqs:
                cand = s[0]
                if not any(cand in t[1:] for t in seqs):
                    break
            else:
                raise Undecided("inconsistent MRO for %s" % qual)
            out.append(cand)
            seqs = [[x for x in s if x != cand] for s in seqs]
            seqs = [s for s in seqs if s]
        return out

    # ------------------------------------------------------------------ lookups
    def module(self, name) -> Module:
        if name not in self.modules:
            raise AnchorMissing("module %s not found" % name)
        return self.modules[name]

    def cls(self, name) -> ClassInfo:
        """by qualified name, or by unique short name"""
        if name in self.classes:
            return self.classes[name]
        hits = [c for q, c in self.classes.items() if q.split(":")[1] == name]
        if len(hits) == 1:
            return hits[0]
        raise AnchorMissing("class %s %s" % (name, "not found" if not hits else "is ambiguous"))

    def func(self, qual) -> FuncInfo:
        if qual in self.functions:
            return self.functions[qual]
        hits = [f for q, f in self.functions.items() if q.split(":")[1] == qual]
        if len(hits) == 1:
            return hits[0]
        raise AnchorMissing("function %s %s" % (qual, "not found" if not hits else "is ambiguous"))

    def info(self, node):
        return self._by_node.get(id(node))

    def is_subclass(self, qual, base) -> bool:
        if qual not in self.classes:
            return qual == base
        return base in self.classes[qual].mro

    def subclasses(self, base, strict=True):
        return [c for c in self.classes.values() if base in c.mro and (not strict or c.qual != base)]

    def lookup_method(self, cls: ClassInfo, name, kind=None) -> Optional[FuncInfo]:
        """first definition of ``name`` along the MRO; kind: None|'getter'|'setter'"""
        for q in cls.mro:
            c = self.classes.get(q)
            if c is None:
                continue
            defs = c.methods.get(name)
            if not defs:
                if name in c.class_attrs:
                    return None  # shadowed by a plain class attribute
                continue
            return self.pick(defs, kind)
        return None

    @staticmethod
    def pick(defs, kind=None):
        real = [d for d in defs if "overload" not in [(n or "").split(".")[-1] for n in d.decorator_names()]]
        if not real:
            return None
        if kind == "setter":
            for d in real:
                if any((n or "").endswith(".setter") for n in d.decorator_names()):
                    return d
            return None
        if kind == "getter":
            for d in real:
                if "property" in [(n or "").split(".")[-1] for n in d.decorator_names()]:
                    return d
            return None
        # plain: the last non-overload def that is not a setter
        plain = [d for d in real if not any((n or "").endswith(".setter") for n in d.decorator_names())]
        return plain[-1] if plain else real[-1]

    def method(self, cls_name, meth, kind=None) -> FuncInfo:
        c = self.cls(cls_name)
        defs = c.methods.get(meth)
        fi = self.pick(defs, kind) if defs else None
        if fi is None:
            raise AnchorMissing("%s.%s%s not found" % (c.qual, meth, " (%s)" % kind if kind else ""))
        return fi

    def owner_of_attr(self, cls: ClassInfo, name):
        """the first class along the MRO defining ``name`` (method, property or class attribute)"""
        for q in cls.mro:
            c = self.classes.get(q)
            if c is None:
                continue
            if name in c.methods or name in c.class_attrs:
                return c
        return None

    def module_constant(self, qual):
        """the value expression (AST) of a module-level name bound exactly once, at module top level, to a simple
        constant expression -- a literal, +/- a literal, float("inf"), math.inf, a tuple of those; else None"""
        if not qual or ":" not in qual or qual.startswith("ext:"):
            return None
        mname, _, nm = qual.partition(":")
        mod = self.modules.get(mname)
        if mod is None or "." in nm:
            return None
        binds = []
        for n in ast.walk(mod.tree):
            if isinstance(n, ast.Name) and n.id == nm and isinstance(n.ctx, (ast.Store, ast.Del)):
                binds.append(n)
            if isinstance(n, (ast.Global, ast.Nonlocal)) and nm in n.names:
                return None
        st = mod.defs.get(nm)
        if len(binds) != 1 or not isinstance(st, (ast.Assign, ast.AnnAssign)) or st not in mod.tree.body or st.value is None:
            return None

        def simple(v):
            if isinstance(v, ast.Constant):
                return True
            if isinstance(v, ast.UnaryOp) and isinstance(v.op, (ast.USub, ast.UAdd)):
                return simple(v.operand)
            if isinstance(v, ast.Tuple):
                return all(simple(e) or (isinstance(e, (ast.Dict, ast.List, ast.Set)) and not (e.keys if isinstance(e, ast.Dict) else e.elts)) for e in v.elts)
            if isinstance(v, ast.Call) and dotted(v.func) == "float" and len(v.args) == 1 and isinstance(v.args[0], ast.Constant) and not v.keywords:
                return True
            if isinstance(v, ast.Call) and dotted(v.func) in ("frozenset", "tuple") and not v.args and not v.keywords:
                return True  # an empty immutable container
            if isinstance(v, ast.Attribute) and self.resolve(mod, v) in ("ext:math.inf", "ext:math.nan", "ext:math.pi", "ext:math.e"):
                return True
            return False

        return (mod, st.value) if simple(st.value) else None

    def has_attr(self, cls: ClassInfo, name) -> Optional[bool]:
        """does an instance of cls have attribute ``name``? None = unknown (external base)"""
        ext = False
        for q in cls.mro:
            c = self.classes.get(q)
            if c is None:
                if q not in ("ext:builtins.object", "ext:typing.Generic", "ext:abc.ABC"):
                    ext = True
                continue
            if name in c.methods or name in c.class_attrs or name in c.fields:
                return True
            slots = c.class_attrs.get("__slots__")
            if slots is not None:
                try:
                    vals = ast.literal_eval(slots)
                    if name in ((vals,) if isinstance(vals, str) else vals):
                        return True
                except Exception:
                    pass
        # fields assigned in subclasses do not count; dunder and object attributes do
        if hasattr(object, name) or name in ("__dict__", "__class__", "__module__", "__qualname__", "__name__"):
            return True
        return None if ext else False

    def stats(self):
        handlers = 0
        calls = 0
        for m in self.modules.values():
            for n in ast.walk(m.tree):
                if isinstance(n, ast.ExceptHandler):
                    handlers += 1
                elif isinstance(n, ast.Call):
                    calls += 1
        return {
            "root": self.root,
            "modules": len(self.modules),
            "classes": len(self.classes),
            "functions": len(self.functions),
            "call_sites": calls,
            "handlers": handlers,
        }

    # ------------------------------------------------------------------ misc
    def walk_functions(self):
        return list(self.functions.values())

    def enclosing_function(self, mod: Module, target):
        """innermost FuncInfo whose node contains ``target``"""
        best = None
        for fi in self.functions.values():
            if fi.module is not mod:
                continue
            n = fi.node
            if n.lineno <= target.lineno <= (n.end_lineno or n.lineno):
                if any(x is target for x in ast.walk(n)):
                    if best is None or n.lineno >= best.node.lineno:
                        best = fi
        return best
