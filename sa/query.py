"""E8 -- who-may-call / who-may-reference queries with embedded positive controls."""
import ast

from .index import Module, dotted


def adhoc_module(program, src, name="<control>"):
    """parse a source string as a module that is resolved like package code but not registered"""
    m = Module(name, "<control>", "<control>", src, False)
    program._index_imports(m, m.tree.body)
    for st in m.tree.body:
        if isinstance(st, (ast.FunctionDef, ast.AsyncFunctionDef, ast.ClassDef)):
            m.defs[st.name] = st
    return m


def calls(program, modules=None):
    """(module, call node, resolved callee or None, attribute name or None) for every call"""
    mods = modules if modules is not None else list(program.modules.values())
    for m in mods:
        for n in ast.walk(m.tree):
            if isinstance(n, ast.Call):
                r = program.resolve(m, n.func)
                attr = n.func.attr if isinstance(n.func, ast.Attribute) else None
                yield m, n, r, attr


def references(program, modules=None):
    """(module, node, resolved name) for every Name/Attribute chain that resolves"""
    mods = modules if modules is not None else list(program.modules.values())
    for m in mods:
        for n in ast.walk(m.tree):
            if isinstance(n, (ast.Name, ast.Attribute)):
                r = program.resolve(m, n)
                if r:
                    yield m, n, r
        for st in ast.walk(m.tree):
            if isinstance(st, ast.ImportFrom):
                for a in st.names:
                    yield m, st, "ext:%s.%s" % (st.module, a.name) if st.level == 0 else ""


def where(program, m, node):
    fi = program.enclosing_function(m, node) if m.name in program.modules else None
    return fi.qual if fi is not None else m.name + ":<module>"
