"""
E3/E4/E5/E6 -- structured, path-sensitive abstract interpreter over Python statement lists.

Values are *origin terms* (nested tuples), so the same run yields event traces (E3),
decisions over finite domains (E5) and value-origin terms (E6):

  ('const', v)  ('sym', name)  ('glob', qualified)  ('attr', base, name)  ('sub', base, index)
  ('call', func, args, kwargs, n)      n = per-path occurrence number of an opaque call
  ('binop', op, l, r) ('unop', op, x) ('cmp', op, l, r)
  ('tuple', items) ('list', items) ('set', items) ('dict', ((k, v), ...))  k None = ** expansion
  ('star', x) ('fstr', parts) ('slice', lo, hi, step)
  ('comp', kind, elt, gens) ('lambda', params, body) ('bound', name)
  ('item', iterable, i) ('proj', value, k) ('enter', ctx)
  ('abs', kind, label)                 injected abstract result: kind in none/falsy/truthy
  ('exc', class qual, tag, args, cause)

Nothing of the analysed program is executed.  Anything the interpreter does not model raises
``Undecided`` -- never a silent pass.
"""
import ast
import copy
from dataclasses import dataclass, field
from typing import Any, Callable, Dict, List, Optional, Tuple

from . import libfacts
from .index import FuncInfo, FuncNode, Program, dotted
from .report import Undecided

SELF = ("sym", "self")

NONE = ("const", None)
TRUE = ("const", True)
FALSE = ("const", False)

ALL_REL = frozenset("<=>")
OPNAME = {
    ast.Add: "+", ast.Sub: "-", ast.Mult: "*", ast.Div: "/", ast.FloorDiv: "//", ast.Mod: "%",
    ast.Pow: "**", ast.LShift: "<<", ast.RShift: ">>", ast.BitOr: "|", ast.BitAnd: "&",
    ast.BitXor: "^", ast.MatMult: "@",
    ast.Lt: "<", ast.LtE: "<=", ast.Gt: ">", ast.GtE: ">=", ast.Eq: "==", ast.NotEq: "!=",
    ast.Is: "is", ast.IsNot: "is not", ast.In: "in", ast.NotIn: "not in",
    ast.Not: "not", ast.USub: "neg", ast.UAdd: "pos", ast.Invert: "~",
}  # fmt: skip
# "u" = unordered (a NaN operand): every ordered comparison and == is False, != is True; only explored when asked for
REL_TRUE = {"<": {"<"}, "<=": {"<", "="}, ">": {">"}, ">=": {">", "="}, "==": {"="}, "!=": {"<", ">", "u"}}
FLIP = {"<": ">", ">": "<", "=": "=", "u": "u"}


def abs_value(kind, label="x"):
    return ("abs", kind, label)


def exc_value(qual, tag=None, args=(), cause=None):
    return ("exc", qual, tag, tuple(args), cause)


def is_exc(t):
    return isinstance(t, tuple) and t and t[0] == "exc"


def subterms(t):
    """all sub-terms of a term, including itself (argument tuples are traversed, not yielded)"""
    if not isinstance(t, tuple) or not t:
        return
    if isinstance(t[0], str):
        yield t
        rest = t[1:]
    else:
        rest = t
    for x in rest:
        if isinstance(x, tuple):
            yield from subterms(x)


def contains(t, sub):
    return any(s == sub for s in subterms(t))


REV_SLICE = ("slice", ("const", None), ("const", None), ("const", -1))


def iteration_layers(t):
    """reversed(list(enumerate(x))) -> (['reversed', 'list', 'enumerate'], x);  x[::-1] counts as reversed"""
    layers = []
    while True:
        if t[0] == "call" and t[1][0] == "glob" and t[1][1].startswith("ext:builtins.") and len(t[2]) == 1 and t[1][1].split(".")[-1] in ("reversed", "list", "tuple", "enumerate", "sorted", "iter"):
            layers.append(t[1][1].split(".")[-1])
            t = t[2][0]
        elif t[0] == "sub" and t[2] == REV_SLICE:
            layers.append("reversed")
            t = t[1]
        elif t[0] == "call" and t[1] == ("glob", "ext:builtins.zip") and len(t[2]) == 2 and not t[3]:
            # zip(range(len(x)), x) is enumerate(x);  zip(reversed(range(len(x))), reversed(x)) is reversed(list(enumerate(x)))
            la, ba = iteration_layers(t[2][0])
            lb, bb = iteration_layers(t[2][1])
            if set(la) - {"reversed", "list", "tuple", "iter"} or set(lb) - {"reversed", "list", "tuple", "iter"}:
                return layers, t
            ba = strip_sites(ba)
            is_range_len = ba[0] == "call" and ba[1] == ("glob", "ext:builtins.range") and len(ba[2]) == 1 and ba[2][0][0] == "call" and ba[2][0][1] == ("glob", "ext:builtins.len") and len(ba[2][0][2]) == 1
            if not is_range_len:
                return layers, t
            x = ba[2][0][2][0]
            xl, xb = iteration_layers(x)
            if set(xl) - {"list", "tuple"} or strip_sites(bb) not in (x, xb) or la.count("reversed") % 2 != lb.count("reversed") % 2:
                return layers, t
            if la.count("reversed") % 2:
                layers.append("reversed")
            layers.append("list")
            layers.append("enumerate")
            t = xb
        else:
            return layers, t


def alpha(t):
    """rename bound (comprehension / lambda) variables canonically per binding scope (de Bruijn-like: depth.index)"""

    def bound_names(x, acc):
        if isinstance(x, tuple):
            if x and x[0] == "bound" and len(x) == 2:
                if x[1] not in acc:
                    acc.append(x[1])
            else:
                for y in x:
                    bound_names(y, acc)
        return acc

    def rec(x, env, depth):
        if not isinstance(x, tuple):
            return x
        if x and x[0] == "bound" and len(x) == 2:
            return ("bound", env.get(x[1], x[1]))
        if x and x[0] == "comp" and len(x) == 4:
            names = []
            for g in x[3]:
                bound_names(g[0], names)
            env2 = dict(env)
            for i, nm in enumerate(names):
                env2[nm] = "v%d_%d" % (depth, i)
            gens = tuple((rec(g[0], env2, depth + 1), rec(g[1], env2, depth + 1), tuple(rec(c, env2, depth + 1) for c in g[2])) for g in x[3])
            return ("comp", x[1], rec(x[2], env2, depth + 1), gens)
        if x and x[0] == "lambda" and len(x) == 3:
            env2 = dict(env)
            for i, nm in enumerate(x[1]):
                env2[nm] = "l%d_%d" % (depth, i)
            return ("lambda", tuple(env2[nm] for nm in x[1]), rec(x[2], env2, depth + 1))
        return tuple(rec(y, env, depth) for y in x)

    return rec(t, {}, 0)


def canon_cmp(op, l, r):
    """one canonical term per comparison: a > b is b < a, a >= b is b <= a; == / != order their operands"""
    if op == ">":
        return ("cmp", "<", r, l)
    if op == ">=":
        return ("cmp", "<=", r, l)
    if op in ("==", "!=") and repr(l) > repr(r) and l != ("const", None) and r != ("const", None):
        return ("cmp", op, r, l)
    return ("cmp", op, l, r)


def strip_sites(t):
    """drop the occurrence numbers of opaque calls (for agreement checks)"""
    if not isinstance(t, tuple):
        return t
    if t and t[0] == "call" and len(t) == 5:
        return ("call",) + tuple(strip_sites(x) for x in t[1:4])
    return tuple(strip_sites(x) for x in t)


def show(t, depth=0):
    """compact human-readable rendering of a term"""
    if not isinstance(t, tuple) or not t:
        return repr(t)
    k = t[0]
    if k == "const":
        return repr(t[1])
    if k in ("sym", "bound"):
        return t[1]
    if k == "glob":
        return t[1].split(":")[-1].replace("ext:", "")
    if k == "attr":
        return "%s.%s" % (show(t[1]), t[2])
    if k == "sub":
        return "%s[%s]" % (show(t[1]), show(t[2]))
    if k == "call":
        args = [show(a) for a in t[2]] + [("%s=%s" % (n, show(v)) if n else "**" + show(v)) for n, v in t[3]]
        return "%s(%s)" % (show(t[1]), ", ".join(args))
    if k == "binop":
        return "(%s %s %s)" % (show(t[2]), t[1], show(t[3]))
    if k == "cmp":
        return "(%s %s %s)" % (show(t[2]), t[1], show(t[3]))
    if k == "unop":
        return "%s(%s)" % (t[1], show(t[2]))
    if k in ("tuple", "list", "set"):
        return {"tuple": "(%s)", "list": "[%s]", "set": "{%s}"}[k] % ", ".join(show(x) for x in t[1])
    if k == "dict":
        return "{%s}" % ", ".join(("%s: %s" % (show(a), show(b)) if a is not None else "**" + show(b)) for a, b in t[1])
    if k == "star":
        return "*" + show(t[1])
    if k == "abs":
        return "<%s %s>" % (t[1], t[2])
    if k == "exc":
        s = "%s(%s)" % (t[1].split(":")[-1].split(".")[-1], ", ".join(show(a) for a in t[3]))
        if t[2] is not None:
            s += "@%s" % (t[2],)
        return s
    if k == "item":
        return "%s#%s" % (show(t[1]), t[2])
    if k == "proj":
        return "%s.%s" % (show(t[1]), t[2])
    if k == "comp":
        return "<%s %s for %s>" % (t[1], show(t[2]), "; ".join("%s in %s%s" % (show(g[0]), show(g[1]), "".join(" if " + show(c) for c in g[2])) for g in t[3]))
    if k == "fstr":
        return "f'%s'" % "".join(p if isinstance(p, str) else "{%s}" % show(p) for p in t[1])
    if k == "lambda":
        return "lambda %s: %s" % (",".join(t[1]), show(t[2]))
    return "%s(%s)" % (k, ", ".join(show(x) if isinstance(x, tuple) else repr(x) for x in t[1:]))


@dataclass
class Path:
    env: Dict[Any, Any] = field(default_factory=dict)
    events: List[Tuple] = field(default_factory=list)
    exc_stack: List[Any] = field(default_factory=list)
    facts: Dict[Any, bool] = field(default_factory=dict)
    rel: Dict[Any, frozenset] = field(default_factory=dict)
    counter: int = 0
    comp_depth: int = 0

    def fork(self):
        return Path(dict(self.env), list(self.events), list(self.exc_stack), dict(self.facts), dict(self.rel), self.counter, self.comp_depth)

    def ev(self, *e):
        self.events.append(e)

    def calls(self, pred=None):
        out = [e for e in self.events if e[0] == "call"]
        if pred:
            out = [e for e in out if pred(e)]
        return out


@dataclass
class Outcome:
    kind: str  # normal | return | raise | break | continue | cut
    path: Path
    value: Any = None


class InFunction(ast.stmt):
    """synthetic statement: execute `body` with `fi` as the current function (name resolution, self/cls)"""

    _fields = ("body",)


# thorough tier: every loop is explored for this many more iterations than the rule asks for
UNROLL_BONUS = 0

# (function qual, local name) -> line: reads of a local that no earlier statement on the interpreted path has bound
UNBOUND_READS = {}


class Interp:
    MAX_PATHS = 5000
    MAX_INLINE = 3

    def __init__(
        self,
        program: Program,
        func: Optional[FuncInfo] = None,
        call_hook: Optional[Callable] = None,
        decide: Optional[Callable] = None,
        inline: Optional[Callable] = None,
        pessimistic: Optional[Callable] = None,
        attr_hook: Optional[Callable] = None,
        sub_hook: Optional[Callable] = None,
        binop_hook: Optional[Callable] = None,
        unroll: int = 2,
        assert_raises: bool = False,
    ):
        """
        call_hook(interp, path, callterm, node) -> None | [(kind, value)]   kind in value/raise
        decide(interp, path, atom) -> True | False | None
        inline(FuncInfo, callterm) -> bool        which resolved callees to inline
        pessimistic(callterm, node) -> bool       may this opaque call raise (forks AnyException)
        attr_hook(interp, path, base, attr, node) -> None | value
        """
        self.program = program
        self.func = func
        self.module = func.module if func is not None else None
        self.call_hook = call_hook
        self.all_rel = ALL_REL  # set to frozenset("<=>u") by a rule that also explores NaN operands
        self.decide_hook = decide
        self.inline_filter = inline
        self.pessimistic = pessimistic
        self.attr_hook = attr_hook
        self.sub_hook = sub_hook  # sub_hook(interp, path, base, index, node) -> None | [(kind, value)]
        self.binop_hook = binop_hook  # binop_hook(interp, path, op, l, r, node) -> None | [(kind, value)]
        self.unroll = unroll + UNROLL_BONUS
        self.assert_raises = assert_raises
        self.npaths = 0
        self.depth = 0
        self._whole = False
        self._locals_cache = {}
        self._funcstack = [func] if func is not None else []

    # ------------------------------------------------------------------ entry points
    def run(self, env=None, path=None) -> List[Outcome]:
        """interpret the whole function body; parameters are bound to ('sym', name)"""
        path = path or Path()
        if env:
            path.env.update(env)
        if self.func is not None and not env:
            # optional collaborators (`sleep=None` ... `sleep or trio.sleep`) nothing in the package injects are None
            from . import util as _util2

            for p_ in _util2.optional_collaborator_params(self.program, self.func):
                path.env.setdefault(("sym", p_), ("const", None))
        if env:
            pass
        elif self.func is not None:
            # a PRIVATE method generalised with defaulted parameters that no call site of the package supplies
            # (`_reap(self, threshold=0)`) behaves, for its callers, as with those defaults
            from . import util as _util

            for k_, v_ in _util.unsupplied_defaults(self.program, self.func).items():
                path.env.setdefault(k_, v_)
        self._whole = env is None
        try:
            return self.exec_block(self.func.node.body, path)
        finally:
            self._whole = False

    # ------------------------------------------------------------------ helpers
    def _cur(self):
        return self._funcstack[-1] if self._funcstack else None

    def locals_of(self, fi: FuncInfo):
        if fi is None:
            return set()
        if id(fi) in self._locals_cache:
            return self._locals_cache[id(fi)]
        names = set()
        a = fi.node.args
        for x in a.posonlyargs + a.args + a.kwonlyargs:
            names.add(x.arg)
        if a.vararg:
            names.add(a.vararg.arg)
        if a.kwarg:
            names.add(a.kwarg.arg)

        def visit(n):
            for c in ast.iter_child_nodes(n):
                if isinstance(c, FuncNode) or isinstance(c, ast.ClassDef):
                    names.add(c.name)
                    continue
                if isinstance(c, ast.Lambda):
                    continue
                if isinstance(c, ast.Name) and isinstance(c.ctx, (ast.Store, ast.Del)):
                    names.add(c.id)
                elif isinstance(c, ast.ExceptHandler) and c.name:
                    names.add(c.name)
                elif isinstance(c, (ast.Import, ast.ImportFrom)):
                    for al in c.names:
                        names.add((al.asname or al.name).split(".")[0])
                visit(c)

        visit(fi.node)
        self._locals_cache[id(fi)] = names
        return names

    def _unbound_candidates(self, fi: FuncInfo):
        """locals of fi that must have been bound by an earlier statement when they are read: assigned locals minus
        parameters, names (also) bound inside a loop body or by a loop header (a zero-iteration path is not evidence),
        global / nonlocal names and nested class names"""
        k = ("unbound", id(fi))
        if k in self._locals_cache:
            return self._locals_cache[k]
        a = fi.node.args
        params = {x.arg for x in a.posonlyargs + a.args + a.kwonlyargs} | ({a.vararg.arg} if a.vararg else set()) | ({a.kwarg.arg} if a.kwarg else set())
        skip = set(params)

        def visit(n, in_loop):
            for c in ast.iter_child_nodes(n):
                if isinstance(c, (FuncNode, ast.Lambda)):
                    continue
                if isinstance(c, ast.ClassDef):
                    skip.add(c.name)
                    continue
                if isinstance(c, (ast.Global, ast.Nonlocal)):
                    skip.update(c.names)
                if isinstance(c, (ast.ListComp, ast.SetComp, ast.DictComp, ast.GeneratorExp)):
                    for g in c.generators:
                        for x in ast.walk(g.target):
                            if isinstance(x, ast.Name):
                                skip.add(x.id)
                loop = in_loop or isinstance(c, (ast.For, ast.AsyncFor, ast.While))
                if loop and isinstance(c, ast.Name) and isinstance(c.ctx, (ast.Store, ast.Del)):
                    skip.add(c.id)
                if loop and isinstance(c, ast.ExceptHandler) and c.name:
                    skip.add(c.name)
                if isinstance(c, ast.NamedExpr):
                    skip.add(c.target.id)
                visit(c, loop)

        visit(fi.node, False)
        out = self.locals_of(fi) - skip
        self._locals_cache[k] = out
        return out

    def lookup_name(self, name, path):
        key = ("sym", name)
        if key in path.env:
            return path.env[key]
        fi = self._cur()
        if fi is not None and (self._whole or fi is not self.func) and name in self._unbound_candidates(fi):
            UNBOUND_READS.setdefault((fi.qual, name), getattr(self, "_cur_lineno", 0))
            path.ev("unbound-local", name)
        f = fi
        while f is not None:
            if name in self.locals_of(f):
                return key
            f = f.parent
        mod = fi.module if fi is not None else self.module
        if mod is not None:
            r = self.program.resolve(mod, name)
            if r is not None:
                mc = self.program.module_constant(r)
                if mc is not None:
                    # a named module-level constant is its value (LEAF = True, _UNBOUNDED = math.inf, ...)
                    return self._const_term(mc[0], mc[1])
                return ("glob", r)
            if fi is not None and (self._whole or fi is not self.func) and name not in ("__class__", "__package__", "__name__", "__file__", "__doc__", "__spec__", "__builtins__", "__debug__"):
                UNBOUND_READS.setdefault((fi.qual, name), getattr(self, "_cur_lineno", 0))
        return key

    def _const_term(self, mod, v):
        if isinstance(v, ast.Constant):
            return ("const", v.value)
        if isinstance(v, ast.UnaryOp):
            inner = self._const_term(mod, v.operand)
            if inner[0] == "const" and isinstance(inner[1], (int, float)):
                return ("const", -inner[1] if isinstance(v.op, ast.USub) else inner[1])
            return ("unop", "-" if isinstance(v.op, ast.USub) else "+", inner)
        if isinstance(v, ast.Tuple):
            return ("tuple", tuple(self._const_term(mod, e) for e in v.elts))
        if isinstance(v, ast.Dict):
            return ("dict", ())
        if isinstance(v, (ast.List, ast.Set)):
            return ("list" if isinstance(v, ast.List) else "set", ())
        if isinstance(v, ast.Call) and dotted(v.func) == "float":
            return ("call", ("glob", "ext:builtins.float"), (("const", v.args[0].value),), (), 0)
        if isinstance(v, ast.Call):
            return ("call", ("glob", "ext:builtins." + dotted(v.func)), (), (), 0)
        return ("glob", self.program.resolve(mod, v))

    def fresh(self, path):
        path.counter += 1
        return path.counter

    # ------------------------------------------------------------------ expression evaluation
    def eval(self, node, path) -> List[Tuple[str, Path, Any]]:
        m = getattr(self, "e_" + type(node).__name__, None)
        if m is None:
            raise Undecided("unsupported expression %s" % type(node).__name__, node)
        return m(node, path)

    def eval_seq(self, nodes, path):
        """evaluate expressions left to right: ([(path, [values])], [raise outcomes])"""
        states = [(path, [])]
        raises = []
        for n in nodes:
            nxt = []
            for p, vals in states:
                for k, p2, v in self.eval(n, p):
                    if k == "raise":
                        raises.append((k, p2, v))
                    else:
                        nxt.append((p2, vals + [v]))
            states = nxt
        return states, raises

    def e_Constant(self, node, path):
        return [("value", path, ("const", node.value))]

    def e_Name(self, node, path):
        self._cur_lineno = getattr(node, "lineno", 0)
        return [("value", path, self.lookup_name(node.id, path))]

    def e_Attribute(self, node, path):
        out = []
        for k, p, b in self.eval(node.value, path):
            if k == "raise":
                out.append((k, p, b))
                continue
            out.append(("value", p, self.read_attr(b, node.attr, p, node)))
        return out

    def read_attr(self, base, attr, path, node=None):
        lv = ("attr", base, attr)
        if lv in path.env:
            return path.env[lv]
        if base[0] == "glob":
            q = base[1]
            if q.startswith("ext:"):
                return ("glob", q + "." + attr)
            if q in self.program.modules:
                r = self.program._resolve_in_module(q, attr, 0)
                mc = self.program.module_constant(r)
                if mc is not None:
                    return self._const_term(mc[0], mc[1])
                return ("glob", r)
            return ("glob", q + "." + attr)
        if self.attr_hook is not None:
            v = self.attr_hook(self, path, base, attr, node)
            if v is not None:
                return v
        if base == SELF and self.func is not None and self.func.cls is not None and self._cur().name != "__init__":
            alias = self._init_alias(self.func.cls, attr)
            if alias is not None:
                return alias
            from . import util as _util3

            if _util3.optional_collaborator_field(self.program, self.func.cls, attr):
                return ("const", None)
        # a field / property of a record built right here:  plugin = _TagPlugin(entry, factory, settings); plugin.tag
        if base[0] == "call" and base[1][0] == "glob" and base[1][1] in self.program.classes and not any(a[0] == "star" for a in base[2]) and all(k for k, _v in base[3]):
            rc = self.program.classes[base[1][1]]
            flds = self._record_fields(rc)
            if flds is not None:
                given = dict(zip([f for f, _d in flds], base[2]))
                given.update(dict(base[3]))
                if attr in given:
                    return given[attr]
                for f, d in flds:
                    if f == attr and isinstance(d, ast.Constant):
                        return ("const", d.value)
                g = self.program.lookup_method(rc, attr, kind="getter")
                if g is not None and self.depth < self.MAX_INLINE:
                    res = self.inline(g, ("attr", base, attr), (), (), path, node)
                    if res is not None and len(res) == 1 and res[0][0] == "value":
                        return res[0][2]
        # a field of a plain instance built right here whose __init__ only stores its parameters:  _Guard(lock)._lock
        if base[0] == "call" and base[1][0] == "glob" and base[1][1] in self.program.classes and not any(a[0] == "star" for a in base[2]) and all(k for k, _v in base[3]):
            pc = self.program.classes[base[1][1]]
            init = self.program.lookup_method(pc, "__init__")
            if init is not None and init.cls is not None and self._record_fields(pc) is None and not init.node.args.vararg and not init.node.args.kwarg:
                params = init.params()
                given = dict(zip(params, base[2]))
                given.update(dict(base[3]))
                a_ = init.node.args
                pos_ = [x.arg for x in a_.posonlyargs + a_.args][1:]
                dflt = dict(zip(pos_[len(pos_) - len(a_.defaults):], a_.defaults)) if a_.defaults else {}
                dflt.update({x.arg: d for x, d in zip(a_.kwonlyargs, a_.kw_defaults) if d is not None})
                stores = [(t_, v_) for t_, v_ in ((st_.targets[0], st_.value) for st_ in init.node.body if isinstance(st_, ast.Assign) and len(st_.targets) == 1) if isinstance(t_, ast.Attribute) and dotted(t_.value) == "self" and t_.attr == attr]
                everywhere = [n for n in ast.walk(pc.node) if isinstance(n, ast.Attribute) and n.attr == attr and isinstance(n.ctx, (ast.Store, ast.Del))]
                if len(stores) == 1 and len(everywhere) == 1:
                    v_ = stores[0][1]
                    if isinstance(v_, ast.Name) and v_.id in params:
                        if v_.id in given:
                            return given[v_.id]
                        if isinstance(dflt.get(v_.id), ast.Constant):
                            return ("const", dflt[v_.id].value)
                    elif isinstance(v_, ast.Constant):
                        return ("const", v_.value)
        # self.<record>.<field> where the class publishes exactly that as the property  <p>: return self.<record>.<field>
        # is the same value as self.<p> (state gathered into one private record, old names kept as properties)
        if base[0] == "attr" and base[1] == SELF and self.func is not None and self.func.cls is not None:
            view = self._record_views(self.func.cls).get((base[2], attr))
            if view is not None and not (self._cur().cls is self.func.cls and self._cur().name == view):
                return ("attr", SELF, view)
        return lv

    def _record_fields(self, rc):
        """[(field, default node or None)] of a package NamedTuple / dataclass without an own constructor, else None"""
        cache = self.program.__dict__.setdefault("_record_fields", {})
        if rc.qual not in cache:
            is_nt = any(b in ("ext:typing.NamedTuple",) for b in rc.bases)
            is_dc = any((x or "").endswith("dataclass") for x in rc.decorators)
            own_ctor = any(nm in rc.methods for nm in ("__init__", "__new__", "__post_init__"))
            flds = None
            if (is_nt or is_dc) and not own_ctor:
                flds = [(b.target.id, b.value) for b in rc.node.body if isinstance(b, ast.AnnAssign) and isinstance(b.target, ast.Name)]
            cache[rc.qual] = flds or None
        return cache[rc.qual]

    def _is_private_record(self, cls, rec):
        """every store to self.<rec> builds a NamedTuple / dataclass of the package (or is self.<rec>._replace(...))"""
        stores = []
        for q in cls.mro:
            c = self.program.classes.get(q)
            if c is not None:
                stores.extend(c.fields.get(rec, []))
        if not stores or not rec.startswith("_"):
            return False
        for st in stores:
            v = getattr(st, "value", None)
            if not isinstance(v, ast.Call):
                return False
            d = dotted(v.func) or ""
            if d == "self.%s._replace" % rec:
                continue
            mod = getattr(self.program.enclosing_function(cls.module, st), "module", cls.module) if hasattr(self.program, "enclosing_function") else cls.module
            rc = self.program.classes.get(self.program.resolve(mod, v.func) or "")
            if rc is None:
                return False
            is_nt = any(b in ("ext:typing.NamedTuple", "ext:collections.namedtuple") for b in rc.bases)
            is_dc = any((x or "").endswith("dataclass") for x in rc.decorators)
            if not (is_nt or is_dc):
                return False
        return True

    def _record_views(self, cls):
        """{(record attribute, field): property name} for the properties of cls (and its bases) whose getter is exactly
        `return self.<record>.<field>`"""
        cache = self.program.__dict__.setdefault("_record_views", {})
        if cls.qual in cache:
            return cache[cls.qual]
        out = {}
        for q in cls.mro:
            c = self.program.classes.get(q)
            if c is None:
                continue
            for name, fis in c.methods.items():
                g = self.program.pick(fis, "getter")
                if g is None:
                    continue
                body = [st for st in g.node.body if not (isinstance(st, ast.Expr) and isinstance(st.value, ast.Constant))]
                if len(body) == 1 and isinstance(body[0], ast.Return) and isinstance(body[0].value, ast.Attribute):
                    d = dotted(body[0].value)
                    if d and d.startswith("self.") and d.count(".") == 2:
                        _s, rec, fld = d.split(".")
                        if self._is_private_record(cls, rec):
                            out.setdefault((rec, fld), name)
        cache[cls.qual] = out
        return out

    # ---- fields bound once, at construction, to another name -------------------------------------------------
    def _init_only_store(self, cls, attr):
        """the `self.<attr> = value` statement when it is the ONLY store to an attribute of that name in the whole
        package and a top-level statement of the __init__ of a class in cls's MRO; else None"""
        prog = self.program
        cache = prog.__dict__.setdefault("_init_only", {})
        key = (cls.qual, attr)
        if key in cache:
            return cache[key]
        cache[key] = None
        stores = []
        for m in prog.modules.values():
            for n in ast.walk(m.tree):
                if isinstance(n, ast.Attribute) and n.attr == attr and isinstance(n.ctx, (ast.Store, ast.Del)):
                    stores.append(n)
                if isinstance(n, ast.Call) and dotted(n.func) in ("setattr", "delattr", "object.__setattr__") and len(n.args) >= 2 and not (isinstance(n.args[1], ast.Constant) and n.args[1].value != attr):
                    return None
        if len(stores) != 1 or dotted(stores[0].value) != "self":
            return None
        for q in cls.mro:
            c = prog.classes.get(q)
            init = prog.lookup_method(c, "__init__") if c is not None else None
            if init is None or init.cls is not c:
                continue
            for st in init.node.body:
                if isinstance(st, ast.Assign) and len(st.targets) == 1 and st.targets[0] is stores[0]:
                    cache[key] = (init, st.value)
                elif isinstance(st, ast.AnnAssign) and st.target is stores[0] and st.value is not None:
                    cache[key] = (init, st.value)
        return cache[key]

    def _init_alias(self, cls, attr, _depth=0):
        """the term a field stands for when it is bound once, in __init__, to an attribute of another such field
        (`self._run = self._meta.run_payload`) or to functools.partial over such values; else None"""
        if _depth > 3:
            return None
        found = self._init_only_store(cls, attr)
        if found is None:
            return None
        init, value = found
        if not (isinstance(value, ast.Attribute) or (isinstance(value, ast.Call) and self.program.resolve(init.module, value.func) == "ext:functools.partial")):
            return None
        return self._init_term(cls, init, value, _depth)

    def _init_term(self, cls, init, e, _depth):
        prog = self.program
        if isinstance(e, ast.Constant):
            return ("const", e.value)
        d = dotted(e)
        if d and d.startswith("self.") and d.count(".") >= 1:
            parts = d.split(".")[1:]
            if self._init_only_store(cls, parts[0]) is None:
                return None
            t = self._init_alias(cls, parts[0], _depth + 1) or ("attr", SELF, parts[0])
            for a in parts[1:]:
                t = ("attr", t, a)
            return t
        if isinstance(e, ast.Name) and e.id in init.params():
            # the field that keeps this constructor argument (directly or through super().__init__(arg))
            return self._param_field(cls, init, e.id)
        if d:
            q = prog.resolve(init.module, e)
            if q is not None and not (isinstance(e, ast.Name) and e.id in {n.id for n in ast.walk(init.node) if isinstance(n, ast.Name) and isinstance(n.ctx, ast.Store)}):
                return ("glob", q)
            return None
        if isinstance(e, ast.Call) and prog.resolve(init.module, e.func) == "ext:functools.partial" and not any(isinstance(a, ast.Starred) for a in e.args) and all(k.arg for k in e.keywords):
            args = [self._init_term(cls, init, a, _depth) for a in e.args]
            kws = [(k.arg, self._init_term(cls, init, k.value, _depth)) for k in e.keywords]
            if any(a is None for a in args) or any(v is None for _k, v in kws):
                return None
            return ("call", ("glob", "ext:functools.partial"), tuple(args), tuple(kws), 0)
        return None

    def _param_field(self, cls, init, pname, _depth=0):
        prog = self.program
        if _depth > 3:
            return None
        for st in init.node.body:
            tv = None
            if isinstance(st, ast.Assign) and len(st.targets) == 1:
                tv = (st.targets[0], st.value)
            elif isinstance(st, ast.AnnAssign) and st.value is not None:
                tv = (st.target, st.value)
            if tv and isinstance(tv[1], ast.Name) and tv[1].id == pname and isinstance(tv[0], ast.Attribute) and dotted(tv[0].value) == "self":
                if self._init_only_store(cls, tv[0].attr) is not None:
                    return ("attr", SELF, tv[0].attr)
            if isinstance(st, ast.Expr) and isinstance(st.value, ast.Call) and isinstance(st.value.func, ast.Attribute) and st.value.func.attr == "__init__" and isinstance(st.value.func.value, ast.Call) and dotted(st.value.func.value.func) == "super":
                mro = init.cls.mro
                for q in mro[1:]:
                    c = prog.classes.get(q)
                    pinit = prog.lookup_method(c, "__init__") if c is not None else None
                    if pinit is None:
                        continue
                    for i, a in enumerate(st.value.args):
                        if isinstance(a, ast.Name) and a.id == pname and i < len(pinit.params()):
                            return self._param_field(cls, pinit, pinit.params()[i], _depth + 1)
                    for k in st.value.keywords:
                        if isinstance(k.value, ast.Name) and k.value.id == pname and k.arg in pinit.params():
                            return self._param_field(cls, pinit, k.arg, _depth + 1)
                    break
        return None

    def e_Subscript(self, node, path):
        states, raises = self.eval_seq([node.value, node.slice], path)
        out = list(raises)
        for p, (b, i) in states:
            lv = ("sub", b, i)
            if lv in p.env:
                out.append(("value", p, p.env[lv]))
                continue
            if b[0] in ("tuple", "list") and i[0] == "const" and isinstance(i[1], int) and not any(x[0] == "star" for x in b[1]):
                try:
                    out.append(("value", p, b[1][i[1]]))
                    continue
                except IndexError:
                    pass
            p.ev("subscript", b, i, getattr(node, "lineno", 0))
            res = self.sub_hook(self, p, b, i, node) if self.sub_hook is not None else None
            if res is None:
                out.append(("value", p, lv))
            else:
                for j, (kk, vv) in enumerate(res):
                    q = p if j == len(res) - 1 else p.fork()
                    if kk == "raise":
                        q.ev("raised-at-subscript", vv, getattr(node, "lineno", 0))
                    out.append((kk, q, vv))
        return out

    def e_Slice(self, node, path):
        parts = [node.lower, node.upper, node.step]
        states, raises = self.eval_seq([x for x in parts if x is not None], path)
        out = list(raises)
        for p, vals in states:
            it = iter(vals)
            out.append(("value", p, ("slice",) + tuple(next(it) if x is not None else NONE for x in parts)))
        return out

    def e_Starred(self, node, path):
        return [(k, p, v if k == "raise" else ("star", v)) for k, p, v in self.eval(node.value, path)]

    def _seq_literal(self, kind, node, path):
        states, raises = self.eval_seq(node.elts, path)
        return list(raises) + [("value", p, (kind, tuple(vals))) for p, vals in states]

    def e_Tuple(self, node, path):
        return self._seq_literal("tuple", node, path)

    def e_List(self, node, path):
        return self._seq_literal("list", node, path)

    def e_Set(self, node, path):
        return self._seq_literal("set", node, path)

    def e_Dict(self, node, path):
        nodes = []
        for k, v in zip(node.keys, node.values):
            if k is not None:
                nodes.append(k)
            nodes.append(v)
        states, raises = self.eval_seq(nodes, path)
        out = list(raises)
        for p, vals in states:
            it = iter(vals)
            items = []
            for k in node.keys:
                kk = next(it) if k is not None else None
                items.append((kk, next(it)))
            out.append(("value", p, ("dict", tuple(items))))
        return out

    def e_JoinedStr(self, node, path):
        exprs = [v.value for v in node.values if isinstance(v, ast.FormattedValue)]
        states, raises = self.eval_seq(exprs, path)
        out = list(raises)
        for p, vals in states:
            it = iter(vals)
            parts = []
            for v in node.values:
                if isinstance(v, ast.FormattedValue):
                    t = next(it)
                    if v.conversion == ord("r"):
                        t = ("call", ("glob", "ext:builtins.repr"), (t,), (), 0)
                    elif v.conversion == ord("s"):
                        t = ("call", ("glob", "ext:builtins.str"), (t,), (), 0)
                    parts.append(t)
                else:
                    parts.append(v.value)
            out.append(("value", p, ("fstr", tuple(parts))))
        return out

    def e_FormattedValue(self, node, path):
        return self.eval(node.value, path)

    def e_BinOp(self, node, path):
        states, raises = self.eval_seq([node.left, node.right], path)
        out = list(raises)
        op = OPNAME[type(node.op)]
        for p, (l, r) in states:
            res = self.binop_hook(self, p, op, l, r, node) if self.binop_hook is not None else None
            if res is None:
                if op == "+" and l[0] == "const" and r[0] == "const" and isinstance(l[1], str) and isinstance(r[1], str):
                    out.append(("value", p, ("const", l[1] + r[1])))  # "\\" + special
                    continue
                out.append(("value", p, ("binop", op, l, r)))
                continue
            for j, (kk, vv) in enumerate(res):
                q = p if j == len(res) - 1 else p.fork()
                if kk == "raise":
                    q.ev("raised-at-binop", vv, op, getattr(node, "lineno", 0))
                out.append((kk, q, vv))
        return out

    def e_UnaryOp(self, node, path):
        out = []
        for k, p, v in self.eval(node.operand, path):
            if k == "raise":
                out.append((k, p, v))
            elif isinstance(node.op, ast.Not):
                t = self.truth(v, p)
                out.append(("value", p, ("unop", "not", v) if t is None else ("const", not t)))
            elif v[0] == "const" and isinstance(v[1], (int, float)) and not isinstance(v[1], bool):
                val = {"neg": -v[1], "pos": +v[1]}.get(OPNAME[type(node.op)])
                if val is None and isinstance(v[1], int):
                    val = ~v[1]
                out.append(("value", p, ("const", val)))
            else:
                out.append(("value", p, ("unop", OPNAME[type(node.op)], v)))
        return out

    def e_Compare(self, node, path):
        if len(node.ops) == 1:
            states, raises = self.eval_seq([node.left, node.comparators[0]], path)
            out = list(raises)
            for p, (l, r) in states:
                term = canon_cmp(OPNAME[type(node.ops[0])], l, r)
                t = self.truth(term, p)
                out.append(("value", p, term if t is None else ("const", t)))
            return out
        # chained: a < b < c  ==  (a < b) and (b < c), each operand evaluated once
        states, raises = self.eval_seq([node.left] + node.comparators, path)
        out = list(raises)
        if path.comp_depth > 0:
            # inside a comprehension conditions stay symbolic (no forking): ('boolop', 'and', (cmp, cmp, ...))
            for p, vals in states:
                terms = tuple(canon_cmp(OPNAME[type(op)], vals[i], vals[i + 1]) for i, op in enumerate(node.ops))
                out.append(("value", p, ("boolop", "and", terms)))
            return out
        for p, vals in states:
            frontier = [p]
            results = []
            for i, op in enumerate(node.ops):
                term = canon_cmp(OPNAME[type(op)], vals[i], vals[i + 1])
                nxt = []
                for q in frontier:
                    t = self.truth(term, q)
                    if t is None:
                        q2 = q.fork()
                        q2.ev("fork", term, False, "forked")
                        q.ev("fork", term, True, "forked")
                        self.assume(term, False, q2)
                        results.append(("value", q2, FALSE))
                        self.assume(term, True, q)
                        nxt.append(q)
                    elif t is False:
                        results.append(("value", q, FALSE))
                    else:
                        nxt.append(q)
                frontier = nxt
            results.extend(("value", q, TRUE) for q in frontier)
            out.extend(results)
        return out

    def e_BoolOp(self, node, path):
        is_and = isinstance(node.op, ast.And)
        if path.comp_depth > 0:
            states, raises = self.eval_seq(node.values, path)
            out = list(raises)
            for p, vals in states:
                flat = []
                for v in vals:
                    if v[0] == "boolop" and v[1] == ("and" if is_and else "or"):
                        flat.extend(v[2])
                    else:
                        flat.append(v)
                out.append(("value", p, ("boolop", "and" if is_and else "or", tuple(flat))))
            return out
        results = []
        frontier = [path]
        for i, sub in enumerate(node.values):
            last = i == len(node.values) - 1
            nxt = []
            for p in frontier:
                for k, p2, v in self.eval(sub, p):
                    if k == "raise":
                        results.append((k, p2, v))
                        continue
                    if last:
                        results.append(("value", p2, v))
                        continue
                    t = self.truth(v, p2)
                    if t is None:
                        p3 = p2.fork()
                        # short-circuit branch
                        p3.ev("fork", v, not is_and, "forked")
                        p2.ev("fork", v, is_and, "forked")
                        self.assume(v, not is_and, p3)
                        results.append(("value", p3, v if v[0] != "cmp" else ("const", not is_and)))
                        self.assume(v, is_and, p2)
                        nxt.append(p2)
                    elif t is (not is_and):
                        results.append(("value", p2, v if v[0] != "cmp" else ("const", t)))
                    else:
                        nxt.append(p2)
            frontier = nxt
        return results

    def e_IfExp(self, node, path):
        out = []
        for k, p, c in self.eval(node.test, path):
            if k == "raise":
                out.append((k, p, c))
                continue
            for branch, q in self.split(c, p, node):
                out.extend(self.eval(node.body if branch else node.orelse, q))
        return out

    def e_NamedExpr(self, node, path):
        out = []
        for k, p, v in self.eval(node.value, path):
            if k == "value":
                p.env[("sym", node.target.id)] = v
            out.append((k, p, v))
        return out

    def e_Await(self, node, path):
        if isinstance(node.value, ast.Call):
            return self.eval_call(node.value, path, awaited=True)
        out = []
        for k, p, v in self.eval(node.value, path):
            if k == "raise":
                out.append((k, p, v))
                continue
            p.ev("await", v, node.lineno)
            res = None
            if self.call_hook:
                res = self.call_hook(self, p, ("await", v), node)
            if res is None:
                out.append(("value", p, ("awaited", v)))
            else:
                for j, (kk, vv) in enumerate(res):
                    out.append((kk, p if j == len(res) - 1 else p.fork(), vv))
        return out

    def e_Yield(self, node, path):
        if node.value is None:
            path.ev("yield", NONE, node.lineno)
            return [("value", path, ("sym", "<sent>"))]
        out = []
        for k, p, v in self.eval(node.value, path):
            if k == "value":
                p.ev("yield", v, node.lineno)
                out.append(("value", p, ("sym", "<sent>")))
            else:
                out.append((k, p, v))
        return out

    def e_Lambda(self, node, path):
        params = tuple(a.arg for a in node.args.posonlyargs + node.args.args + node.args.kwonlyargs)
        scratch = path.fork()
        for a in params:
            scratch.env[("sym", a)] = ("bound", a)
        try:
            res = self.eval(node.body, scratch)
            body = res[0][2] if len(res) == 1 and res[0][0] == "value" else ("opaque", "lambda@%d" % node.lineno)
        except Undecided:
            body = ("opaque", "lambda@%d" % node.lineno)
        return [("value", path, ("lambda", params, body))]

    def _comp(self, kind, elts, generators, path):
        names = [n.id for g in generators for n in ast.walk(g.target) if isinstance(n, ast.Name)]
        saved = {nm: path.env[("sym", nm)] for nm in names if ("sym", nm) in path.env}
        depth0 = path.comp_depth
        path.comp_depth += 1
        states = [(path, [])]
        out = []
        for g in generators:
            nxt = []
            for p, acc in states:
                for k, p2, it in self.eval(g.iter, p):
                    if k == "raise":
                        out.append((k, p2, it))
                        continue
                    for n in ast.walk(g.target):
                        if isinstance(n, ast.Name):
                            p2.env[("sym", n.id)] = ("bound", n.id)
                    target = self._target_term(g.target)
                    cstates, craises = self.eval_seq(g.ifs, p2)
                    out.extend(craises)
                    for p3, conds in cstates:
                        nxt.append((p3, acc + [(target, it, tuple(conds))]))
            states = nxt
        for p, gens in states:
            estates, eraises = self.eval_seq(elts, p)
            out.extend(eraises)
            for p4, vals in estates:
                elt = vals[0] if len(vals) == 1 else ("tuple", tuple(vals))
                out.append(("value", p4, ("comp", kind, elt, tuple(gens))))
        for _k, p, _v in out:
            p.comp_depth = depth0
            for nm in names:
                p.env.pop(("sym", nm), None)
            p.env.update(saved)
        path.comp_depth = depth0
        return out

    def _target_term(self, t):
        if isinstance(t, ast.Name):
            return ("bound", t.id)
        if isinstance(t, (ast.Tuple, ast.List)):
            return ("tuple", tuple(self._target_term(e) for e in t.elts))
        return ("opaque", ast.unparse(t))

    def e_ListComp(self, node, path):
        return self._comp("list", [node.elt], node.generators, path)

    def e_SetComp(self, node, path):
        return self._comp("set", [node.elt], node.generators, path)

    def e_GeneratorExp(self, node, path):
        return self._comp("gen", [node.elt], node.generators, path)

    def e_DictComp(self, node, path):
        return self._comp("dict", [node.key, node.value], node.generators, path)

    # ------------------------------------------------------------------ calls
    def e_Call(self, node, path):
        return self.eval_call(node, path, awaited=False)

    def eval_call(self, node: ast.Call, path, awaited):
        if isinstance(node.func, ast.Attribute) and node.func.attr == "reverse" and not node.args and not node.keywords and isinstance(node.func.value, ast.Name):
            key = ("sym", node.func.value.id)
            cur = path.env.get(key)
            if cur is not None and cur[0] in ("comp", "list", "call", "binop"):
                path.env[key] = ("call", ("glob", "ext:builtins.reversed"), (cur,), (), 0)
                path.ev("inplace-reverse", key[1], getattr(node, "lineno", 0))
                return [("value", path, NONE)]
        # any((a, b)) / all([a, b]) over a display is  bool(a or b) / bool(a and b)  (same operands, same order, same
        # short-circuit)
        if isinstance(node.func, ast.Name) and node.func.id in ("any", "all") and ("sym", node.func.id) not in path.env and len(node.args) == 1 and not node.keywords and isinstance(node.args[0], (ast.Tuple, ast.List)) and len(node.args[0].elts) >= 2 and not any(isinstance(e, ast.Starred) for e in node.args[0].elts):
            cur = self._cur()
            if self.program.resolve(cur.module if cur is not None else self.module, node.func) == "ext:builtins." + node.func.id:
                bo = ast.copy_location(ast.BoolOp(op=ast.Or() if node.func.id == "any" else ast.And(), values=list(node.args[0].elts)), node)
                out = []
                for k, p, v in self.eval(bo, path):
                    if k == "raise" or v[0] == "const":
                        out.append((k, p, v if k == "raise" else ("const", bool(v[1]))))
                    else:
                        out.append((k, p, ("call", ("glob", "ext:builtins.bool"), (v,), (), 0)))
                return out
        nodes = [node.func] + list(node.args) + [kw.value for kw in node.keywords]
        states, raises = self.eval_seq(nodes, path)
        out = list(raises)
        for p, vals in states:
            f = vals[0]
            args = tuple(vals[1 : 1 + len(node.args)])
            kwargs = tuple((kw.arg, v) for kw, v in zip(node.keywords, vals[1 + len(node.args) :]))
            if f == ("glob", "ext:builtins.getattr") and len(args) == 2 and not kwargs and args[1][0] == "const" and isinstance(args[1][1], str) and args[1][1].isidentifier():
                # getattr(o, NAME) with NAME a known string on this path is the attribute o.NAME
                out.append(("value", p, ("attr", args[0], args[1][1])))
                continue
            out.extend(self.apply(f, args, kwargs, p, node, awaited))
        return out

    def _eval_call_args(self, node: ast.Call, path):
        """[(kind, path, args, kwargs)]: the argument terms of a call, without applying it"""
        nodes = []
        for a in node.args:
            nodes.append(a.value if isinstance(a, ast.Starred) else a)
        nodes += [kw.value for kw in node.keywords]
        states, raises = self.eval_seq(nodes, path)
        out = [("raise", p, v, None) for _k, p, v in raises]
        for p, vals in states:
            args = tuple(("star", v) if isinstance(a, ast.Starred) else v for a, v in zip(node.args, vals[: len(node.args)]))
            kwargs = tuple((kw.arg, v) for kw, v in zip(node.keywords, vals[len(node.args) :]))
            args, kwargs = self.flatten_args(args, kwargs)
            out.append(("value", p, args, kwargs))
        return out

    def resolve_callee(self, f, path) -> Optional[FuncInfo]:
        """resolve a function term to a package function"""
        prog = self.program
        if f[0] == "glob":
            q = f[1]
            if q in prog.functions:
                return prog.functions[q]
            return None
        if f[0] == "attr":
            base, name = f[1], f[2]
            cls = self.class_of(base, path)
            if cls is not None:
                return prog.lookup_method(cls, name)
        if f[0] == "sym":
            # nested function of the current function
            fi = self._cur()
            while fi is not None:
                q = fi.qual + "." + f[1]
                if q in prog.functions:
                    return prog.functions[q]
                fi = fi.parent
        return None

    def class_of(self, term, path):
        prog = self.program
        if term == ("sym", "self") or term == ("sym", "cls"):
            fi = self._cur()
            while fi is not None and fi.cls is None:
                fi = fi.parent
            return fi.cls if fi is not None else None
        if term[0] == "call" and term[1][0] == "glob" and term[1][1] in prog.classes:
            return prog.classes[term[1][1]]
        if term[0] == "inst":
            return prog.classes.get(term[1])
        if term[0] == "attr":
            owner = self.class_of(term[1], path)
            if owner is not None:
                for q in owner.mro:
                    c = prog.classes.get(q)
                    if c is not None and term[2] in c.field_types:
                        return prog.classes.get(c.field_types[term[2]])
        if term[0] == "call" and term[1] == ("glob", "ext:builtins.super"):
            fi = self._cur()
            while fi is not None and fi.cls is None:
                fi = fi.parent
            if fi is not None and len(fi.cls.mro) > 1:
                return prog.classes.get(fi.cls.mro[1])
        return None

    @staticmethod
    def flatten_args(args, kwargs):
        """f(*(a, *b)) == f(a, *b);  f(**{'k': v, **m}) == f(k=v, **m)"""
        out = []
        for a in args:
            if a[0] == "star" and a[1][0] in ("tuple", "list"):
                out.extend(Interp.flatten_args(a[1][1], ())[0])
            else:
                out.append(a)
        kw = list(kwargs)  # ** of a dict *value* is kept: the mapping may have been mutated since it was built
        return tuple(out), tuple(kw)

    def apply(self, f, args, kwargs, path, node, awaited=False):
        lineno = getattr(node, "lineno", 0)
        # f(*tuple(xs)) / f(*list(xs)) passes the elements of xs
        args = tuple(("star", a[1][2][0]) if a[0] == "star" and a[1][0] == "call" and a[1][1] in (("glob", "ext:builtins.tuple"), ("glob", "ext:builtins.list")) and len(a[1][2]) == 1 and not a[1][3] else a for a in args)
        kwargs = tuple((k_, v_[2][0]) if k_ is None and v_[0] == "call" and v_[1] == ("glob", "ext:builtins.dict") and len(v_[2]) == 1 and not v_[3] and self.type_of(v_[2][0], path) is dict else (k_, v_) for k_, v_ in kwargs)
        args, kwargs = self.flatten_args(args, kwargs)
        # tuple(x) of a value that certainly is a tuple is x itself
        if f == ("glob", "ext:builtins.tuple") and len(args) == 1 and not kwargs and self.type_of(args[0], path) is tuple:
            return [("value", path, args[0])]
        # str(x) of a value that is text by construction (a text method, concatenation or %-formatting of text,
        # json.dumps -- NOT merely annotated as str: an annotation is not enforced, and str(2) is not 2) is x itself
        if f == ("glob", "ext:builtins.str") and len(args) == 1 and not kwargs and args[0][0] not in ("star", "const"):
            if self.type_of(args[0], path, _ann=False) is str:
                return [("value", path, args[0])]
        # typing.cast(T, x) is x
        if f in (("glob", "ext:typing.cast"), ("glob", "ext:typing_extensions.cast")) and len(args) == 2 and not kwargs:
            return [("value", path, args[1])]
        # dict({...}) of a display is a fresh mapping with the same items
        if f == ("glob", "ext:builtins.dict") and len(args) == 1 and not kwargs and args[0][0] == "dict":
            return [("value", path, args[0])]
        # bool(c) of a comparison / boolean term / a value that certainly is a bool is that term
        if f == ("glob", "ext:builtins.bool") and len(args) == 1 and not kwargs and (args[0][0] in ("cmp", "boolop", "unop") or self.type_of(args[0], path) is bool):
            return [("value", path, args[0])]
        # a module-level name bound once to functools.partial(g, <literals>):  _escape = partial(_escape_chars, specials=(",", " "))
        if f[0] == "glob" and ":" in f[1] and not f[1].startswith("ext:") and f[1] not in self.program.functions and f[1] not in self.program.classes:
            pt = self._module_partial(f[1])
            if pt is not None:
                f = pt
        # functools.partial(g, *a, **k)(*b, **l)  ==  g(*a, *b, **k, **l)
        if f[0] == "call" and f[1] == ("glob", "ext:functools.partial") and f[2] and f[2][0][0] != "star":
            return self.apply(f[2][0], tuple(f[2][1:]) + args, tuple(f[3]) + kwargs, path, node, awaited)
        # map(operator.attrgetter("a"), xs) / map(lambda x: e, xs)  ==  (x.a for x in xs) / (e for x in xs)
        if f == ("glob", "ext:builtins.map") and len(args) == 2 and not kwargs:
            g, xs = args
            gs = strip_sites(g)
            if gs[0] == "call" and gs[1] == ("glob", "ext:operator.attrgetter") and len(gs[2]) == 1 and not gs[3] and gs[2][0][0] == "const" and isinstance(gs[2][0][1], str) and "." not in gs[2][0][1]:
                v = ("bound", "_m")
                return [("value", path, ("comp", "gen", ("attr", v, gs[2][0][1]), ((v, xs, ()),)))]
            if g[0] == "lambda" and len(g[1]) == 1 and g[2][0] != "opaque":
                v = ("bound", g[1][0])
                return [("value", path, ("comp", "gen", g[2], ((v, xs, ()),)))]
        # getattr(x, "name")  ==  x.name
        if f == ("glob", "ext:builtins.getattr") and len(args) == 2 and not kwargs and args[1][0] == "const" and isinstance(args[1][1], str):
            return [("value", path, self.read_attr(args[0], args[1][1], path, node))]
        n = self.fresh(path)
        callterm = ("call", f, args, kwargs, n)
        path.ev("call", callterm, lineno, awaited, path.comp_depth > 0)
        self.npaths += 0
        if self.call_hook is not None:
            res = self.call_hook(self, path, callterm, node)
            if res is not None:
                out = []
                for j, (k, v) in enumerate(res):
                    q = path if j == len(res) - 1 else path.fork()
                    if k == "raise":
                        q.ev("raised-at-call", v, lineno)
                    out.append((k, q, v))
                return out
        # exception construction
        if f[0] == "glob" and libfacts.is_exception_class(f[1], self.program):
            return [("value", path, exc_value(f[1], ("new", lineno), args + tuple(v for _n, v in kwargs)))]
        fi = self.resolve_callee(f, path)
        if fi is not None and self.inline_filter is not None and self.depth < self.MAX_INLINE and self.inline_filter(fi, callterm):
            res = self.inline(fi, f, args, kwargs, path, node)
            if res is not None:
                return res
        out = []
        if self.pessimistic is not None and self.pessimistic(callterm, node):
            q = path.fork()
            e = exc_value("rep:AnyException", ("implicit", lineno))
            q.ev("raised-at-call", e, lineno)
            out.append(("raise", q, e))
        out.append(("value", path, callterm))
        return out

    def bind_args(self, fi: FuncInfo, recv, args, kwargs, path):
        """map call arguments onto the parameters of fi; None when the shape is not modelled"""
        a = fi.node.args
        params = [x.arg for x in a.posonlyargs + a.args]
        binding = {}
        if fi.cls is not None and not fi.is_static and params:
            if recv is None:
                return None
            binding[params[0]] = recv
            params = params[1:]
        pos = list(args)
        if any(x[0] == "star" for x in pos):
            # f(*args, **kwargs) forwarding onto (*args, **kwargs) parameters only
            if len(pos) == 1 and not params and a.vararg is not None:
                binding[a.vararg.arg] = pos[0][1]
                pos = []
            else:
                return None
        for name, v in zip(params, pos):
            binding[name] = v
        extra = pos[len(params) :]
        if extra:
            if a.vararg is None:
                return None
            binding[a.vararg.arg] = ("tuple", tuple(extra))
        elif a.vararg is not None and a.vararg.arg not in binding:
            binding[a.vararg.arg] = ("tuple", ())
        kwrest = []
        allnames = set(params) | {x.arg for x in a.kwonlyargs}
        for name, v in kwargs:
            if name is None:
                if a.kwarg is None:
                    return None
                kwrest.append((None, v))
            elif name in allnames and name not in binding:
                binding[name] = v
            elif a.kwarg is not None:
                kwrest.append((("const", name), v))
            else:
                return None
        if a.kwarg is not None:
            if len(kwrest) == 1 and kwrest[0][0] is None:
                binding[a.kwarg.arg] = kwrest[0][1]
            else:
                binding[a.kwarg.arg] = ("dict", tuple(kwrest))
        # defaults
        defaults = dict(zip([x.arg for x in (a.posonlyargs + a.args)][len(a.posonlyargs + a.args) - len(a.defaults) :], a.defaults))
        for x, d in zip(a.kwonlyargs, a.kw_defaults):
            if d is not None:
                defaults[x.arg] = d
        for name in list(params) + [x.arg for x in a.kwonlyargs]:
            if name not in binding:
                if name in defaults:
                    d = defaults[name]
                    try:
                        binding[name] = ("const", ast.literal_eval(d))
                    except Exception:
                        r = self.program.resolve(fi.module, d)
                        binding[name] = ("glob", r) if r else ("default", ast.unparse(d))
                else:
                    return None
        return binding

    def inline(self, fi: FuncInfo, f, args, kwargs, path, node):
        from .util import walk_no_nested

        if any(isinstance(n, (ast.Yield, ast.YieldFrom)) for n in walk_no_nested(fi.node)):
            return None
        recv = f[1] if f[0] == "attr" else None
        if fi.is_classmethod and recv is not None:
            pass
        binding = self.bind_args(fi, recv, args, kwargs, path)
        if binding is None:
            return None
        saved = {k: v for k, v in path.env.items() if k[0] == "sym"}
        for k in saved:
            del path.env[k]
        for name, v in binding.items():
            path.env[("sym", name)] = v
        path.ev("inline-enter", fi.qual, getattr(node, "lineno", 0))
        self._funcstack.append(fi)
        self.depth += 1
        try:
            outs = self.exec_block(fi.node.body, path)
        finally:
            self.depth -= 1
            self._funcstack.pop()
        res = []
        for o in outs:
            p = o.path
            for k in [k for k in p.env if k[0] == "sym"]:
                del p.env[k]
            p.env.update(saved)
            p.ev("inline-exit", fi.qual, o.kind)
            if o.kind == "normal":
                res.append(("value", p, NONE))
            elif o.kind == "return":
                res.append(("value", p, o.value if o.value is not None else NONE))
            elif o.kind == "raise":
                res.append(("raise", p, o.value))
            elif o.kind == "cut":
                res.append(("cut", p, None))
            else:
                raise Undecided("loop control escaping %s" % fi.qual, node)
        return res

    # ------------------------------------------------------------------ truth / domains
    def nullness(self, v, path) -> Optional[bool]:
        k = v[0]
        if k == "const":
            return v[1] is None
        if k == "abs":
            return v[1] == "none"
        if k in ("exc", "tuple", "list", "set", "dict", "fstr", "lambda", "comp", "binop", "cmp", "glob", "inst"):
            return False
        if k == "call" and v[1][0] == "glob" and (v[1][1] in self.program.classes):
            return False
        f = path.facts.get(("isnone", v))
        if f is not None:
            return f
        if path.facts.get(("truthy", v)) is True:
            return False
        return None

    BUILTIN_TYPES = {"tuple": tuple, "list": list, "dict": dict, "set": set, "frozenset": frozenset, "str": str, "int": int, "float": float, "bool": bool, "bytes": bytes}

    def type_of(self, v, path, _depth=0, _text=0, _ann=True):
        """the builtin type a term certainly has (tuple for *args, dict for **kwargs, displays, constructor calls,
        constants, fields that are only ever assigned such values), else None"""
        k = v[0]
        if k in ("tuple", "list", "dict", "set"):
            return self.BUILTIN_TYPES[k]
        if k == "const" and v[1] is not None:
            return type(v[1])
        if k == "fstr":
            return str
        if k == "comp":
            return {"list": list, "set": set, "dict": dict}.get(v[1])
        if k == "call" and v[1][0] == "glob" and v[1][1].startswith("ext:builtins.") and v[1][1].split(".")[-1] in self.BUILTIN_TYPES:
            return self.BUILTIN_TYPES[v[1][1].split(".")[-1]]
        if k == "call" and _depth < 2 and _ann:
            cont, _elt = self._annotated_return(v, path)
            if cont is not None:
                return cont
        # text: str methods that return text, concatenation and %-formatting of text, json.dumps
        if k == "call" and v[1][0] == "attr" and v[1][2] in self.STR_TO_STR and _text < 60 and self.type_of(v[1][1], path, _depth, _text + 1, _ann) is str:
            return str
        if k == "call" and v[1] in (("glob", "ext:json.dumps"), ("glob", "ext:builtins.repr"), ("glob", "ext:builtins.format"), ("glob", "ext:builtins.ascii")):
            return str
        if k == "binop" and _text < 60:
            lt = self.type_of(v[2], path, _depth, _text + 1, _ann)
            if v[1] == "%" and lt is str:
                return str
            if v[1] == "+" and lt in (str, tuple, list) and self.type_of(v[3], path, _depth, _text + 1, _ann) is lt:
                return lt
        # an earlier `assert isinstance(x, T)` / `if isinstance(x, T):` on this path
        for fk, fv in path.facts.items():
            if fv is True and fk[0] == "truthy" and fk[1][0] == "call" and fk[1][1] == ("glob", "ext:builtins.isinstance") and len(fk[1][2]) == 2 and fk[1][2][0] == v:
                c = fk[1][2][1]
                if c[0] == "glob" and c[1].startswith("ext:builtins.") and c[1].split(".")[-1] in self.BUILTIN_TYPES:
                    return self.BUILTIN_TYPES[c[1].split(".")[-1]]
        fi = self._cur()
        if not _ann and k in ("sym", "attr"):
            # (structural facts only: *args / **kwargs)
            a = fi.node.args if fi is not None else None
            if k == "sym" and a is not None and a.vararg is not None and v[1] == a.vararg.arg and ("sym", v[1]) not in path.env:
                return tuple
            if k == "sym" and a is not None and a.kwarg is not None and v[1] == a.kwarg.arg and ("sym", v[1]) not in path.env:
                return dict
            return None
        if k == "sym" and fi is not None:
            a = fi.node.args
            if a.vararg is not None and v[1] == a.vararg.arg and ("sym", v[1]) not in path.env:
                return tuple
            if a.kwarg is not None and v[1] == a.kwarg.arg and ("sym", v[1]) not in path.env:
                return dict
            # a parameter (of this or an enclosing function) annotated with a builtin type
            f2 = fi
            while f2 is not None:
                for x in f2.node.args.posonlyargs + f2.node.args.args + f2.node.args.kwonlyargs:
                    if x.arg == v[1] and x.annotation is not None and isinstance(x.annotation, ast.Name) and x.annotation.id in ("bool", "str", "int", "float", "bytes") and ("sym", v[1]) not in path.env:
                        return self.BUILTIN_TYPES[x.annotation.id]
                    # ... or with a container type:  mapping: Dict[str, Any]  /  items: list
                    if x.arg == v[1] and x.annotation is not None and ("sym", v[1]) not in path.env:
                        head = x.annotation.value if isinstance(x.annotation, ast.Subscript) else x.annotation
                        hn = (dotted(head) or "").split(".")[-1] if isinstance(head, (ast.Name, ast.Attribute)) else ""
                        if hn in self.TYPING_CONTAINERS and hn not in ("Tuple", "tuple"):
                            return self.TYPING_CONTAINERS[hn]
                f2 = f2.parent
        if k == "attr" and v[1] == ("sym", "self") and _depth < 2:
            cur = fi
            while cur is not None and cur.cls is None:
                cur = cur.parent
            if cur is not None:
                stores = []
                for q in cur.cls.mro:
                    c = self.program.classes.get(q)
                    if c is not None:
                        stores.extend(c.fields.get(v[2], []))
                kinds = set()
                for st in stores:
                    val = getattr(st, "value", None)
                    owner = self.program.enclosing_function(cur.cls.module, st) if hasattr(self.program, "enclosing_function") else None
                    t = None
                    if isinstance(val, ast.Name) and owner is not None:
                        oa = owner.node.args
                        if oa.vararg is not None and val.id == oa.vararg.arg:
                            t = tuple
                        elif oa.kwarg is not None and val.id == oa.kwarg.arg:
                            t = dict
                    elif isinstance(val, ast.Tuple):
                        t = tuple
                    elif isinstance(val, ast.List):
                        t = list
                    elif isinstance(val, ast.Dict):
                        t = dict
                    elif isinstance(val, ast.Call) and dotted(val.func) in self.BUILTIN_TYPES:
                        t = self.BUILTIN_TYPES[dotted(val.func)]
                    elif isinstance(val, (ast.SetComp, ast.ListComp, ast.DictComp)):
                        t = {ast.SetComp: set, ast.ListComp: list, ast.DictComp: dict}[type(val)]
                    elif isinstance(val, ast.IfExp):
                        arms = set()
                        for arm in (val.body, val.orelse):
                            if isinstance(arm, ast.Call) and dotted(arm.func) in self.BUILTIN_TYPES:
                                arms.add(self.BUILTIN_TYPES[dotted(arm.func)])
                            elif isinstance(arm, (ast.Tuple, ast.List, ast.Dict, ast.Set, ast.SetComp, ast.ListComp, ast.DictComp)):
                                arms.add({ast.Tuple: tuple, ast.List: list, ast.Dict: dict, ast.Set: set, ast.SetComp: set, ast.ListComp: list, ast.DictComp: dict}[type(arm)])
                            else:
                                arms.add(None)
                        t = arms.pop() if len(arms) == 1 else None
                    kinds.add(t)
                if stores and len(kinds) == 1 and None not in kinds:
                    return kinds.pop()
        # the rule's scenario says so (a decide hook that answers isinstance(v, str) for this value)
        if self.decide_hook is not None and k in ("sym", "bound", "item", "proj") and _text < 60 and _ann:
            if self.decide_hook(self, path, ("call", ("glob", "ext:builtins.isinstance"), (v, ("glob", "ext:builtins.str")), (), 0)) is True:
                return str
        return None

    STR_TO_STR = frozenset("replace strip lstrip rstrip lower upper casefold title capitalize swapcase join format format_map center ljust rjust zfill expandtabs translate removeprefix removesuffix".split())

    TYPING_CONTAINERS = {"Set": set, "List": list, "Tuple": tuple, "Dict": dict, "FrozenSet": frozenset, "set": set, "list": list, "tuple": tuple, "dict": dict, "frozenset": frozenset}

    def _annotated_return(self, callterm, path):
        """(container builtin type or None, element class qual or None) from the return annotation of the package
        function a call term resolves to (annotations are trusted type facts)"""
        if callterm[0] != "call":
            return None, None
        fi = self.resolve_callee(callterm[1], path)
        if fi is None and callterm[1][0] == "attr" and callterm[1][1][0] == "glob" and callterm[1][1][1] in self.program.classes:
            fi = self.program.lookup_method(self.program.classes[callterm[1][1][1]], callterm[1][2])
        if fi is None or fi.node.returns is None:
            return None, None
        ann = fi.node.returns
        if isinstance(ann, ast.Constant) and isinstance(ann.value, str):
            try:
                ann = ast.parse(ann.value, mode="eval").body
            except SyntaxError:
                return None, None
        if isinstance(ann, ast.Subscript):
            head = (dotted(ann.value) or "").split(".")[-1]
            cont = self.TYPING_CONTAINERS.get(head)
            elt = ann.slice
            if isinstance(elt, ast.Tuple) and elt.elts:
                elt = elt.elts[0]
            q = self.program.resolve(fi.module, elt) if isinstance(elt, (ast.Name, ast.Attribute)) else None
            return cont, (q if q in self.program.classes else None)
        q = self.program.resolve(fi.module, ann) if isinstance(ann, (ast.Name, ast.Attribute)) else None
        if q in self.program.classes:
            return None, None
        return self.TYPING_CONTAINERS.get((dotted(ann) or "").split(".")[-1]) if isinstance(ann, (ast.Name, ast.Attribute)) else None, None

    def _annotated_field(self, attr):
        """(container builtin type, element / value class qual) of `self.<attr>: Dict[K, C] = ...` in the current class"""
        cls = self.func.cls if self.func is not None else None
        if cls is None:
            return None, None
        key = (cls.qual, attr)
        cache = self.program.__dict__.setdefault("_annotated_fields", {})
        if key not in cache:
            found = (None, None)
            for q in cls.mro:
                c = self.program.classes.get(q)
                if c is None:
                    continue
                for fis in c.methods.values():
                    for fi in fis:
                        for n in ast.walk(fi.node):
                            if isinstance(n, ast.AnnAssign) and isinstance(n.target, ast.Attribute) and n.target.attr == attr and dotted(n.target.value) == "self" and isinstance(n.annotation, ast.Subscript):
                                ann = n.annotation
                                head = (dotted(ann.value) or "").split(".")[-1]
                                cont = self.TYPING_CONTAINERS.get(head)
                                elt = ann.slice
                                if isinstance(elt, ast.Tuple) and elt.elts:
                                    elt = elt.elts[-1] if cont is dict else elt.elts[0]
                                qq = self.program.resolve(fi.module, elt) if isinstance(elt, (ast.Name, ast.Attribute)) else None
                                if cont is not None and qq in self.program.classes:
                                    found = (cont, qq)
            cache[key] = found
        return cache[key]

    def _module_partial(self, qual):
        """the partial(...) term a module-level name stands for when it is bound exactly once, at top level, to
        functools.partial over a package function and literal arguments; else None"""
        cache = self.program.__dict__.setdefault("_module_partials", {})
        if qual in cache:
            return cache[qual]
        cache[qual] = None
        mname, _, nm = qual.partition(":")
        mod = self.program.modules.get(mname)
        st = mod.defs.get(nm) if mod is not None and "." not in nm else None
        v = getattr(st, "value", None)
        if st is None or st not in mod.tree.body or not isinstance(v, ast.Call) or self.program.resolve(mod, v.func) != "ext:functools.partial" or not v.args:
            return None
        binds = [n for n in ast.walk(mod.tree) if isinstance(n, ast.Name) and n.id == nm and isinstance(n.ctx, (ast.Store, ast.Del))]
        if len(binds) != 1 or any(isinstance(n, (ast.Global, ast.Nonlocal)) and nm in n.names for n in ast.walk(mod.tree)):
            return None
        g = self.program.resolve(mod, v.args[0])
        if g is None or any(isinstance(a, ast.Starred) for a in v.args) or any(k.arg is None for k in v.keywords):
            return None
        try:
            args = tuple(("const", ast.literal_eval(a)) for a in v.args[1:])
            kws = tuple((k.arg, ("const", ast.literal_eval(k.value))) for k in v.keywords)
        except Exception:
            return None
        cache[qual] = ("call", ("glob", "ext:functools.partial"), (("glob", g),) + args, kws, 0)
        return cache[qual]

    def _declared_field_type(self, attr):
        """the qualified name T of `self.<attr>: T [= ...]` in the methods of the current class (and its bases)"""
        cls = self.func.cls if self.func is not None else None
        if cls is None:
            return None
        cache = self.program.__dict__.setdefault("_declared_fields", {})
        key = (cls.qual, attr)
        if key not in cache:
            found = set()
            for q in cls.mro:
                c = self.program.classes.get(q)
                if c is None:
                    continue
                for fis in c.methods.values():
                    for fi in fis:
                        for n in ast.walk(fi.node):
                            if isinstance(n, ast.AnnAssign) and isinstance(n.target, ast.Attribute) and n.target.attr == attr and dotted(n.target.value) == "self" and isinstance(n.annotation, (ast.Name, ast.Attribute)):
                                found.add(self.program.resolve(fi.module, n.annotation))
            cache[key] = found.pop() if len(found) == 1 else None
        return cache[key]

    def class_of_value(self, v, path):
        """the package class an element certainly is an instance of: an item of a call annotated Set[C] / List[C] / ...,
        a value of a field annotated Dict[K, C] (annotations are trusted type facts)"""
        v = strip_sites(v) if v[0] in ("sub", "item") else v
        if v[0] == "item":
            _cont, elt = self._annotated_return(v[1], path)
            if elt is None and v[1][0] == "call" and v[1][1][0] == "attr" and v[1][1][2] == "values" and v[1][1][1][0] == "attr" and v[1][1][1][1] == SELF:
                cont, elt = self._annotated_field(v[1][1][1][2])
                if cont is not dict:
                    elt = None
            return elt
        if v[0] == "sub" and v[1][0] == "attr" and v[1][1] == SELF:
            cont, elt = self._annotated_field(v[1][2])
            return elt if cont in (dict, list, tuple) else None
        return None

    def truth(self, v, path) -> Optional[bool]:
        k = v[0]
        if k == "const":
            return bool(v[1])
        # isinstance(x, C) for an element whose class is known from an annotation
        if k == "call" and v[1] == ("glob", "ext:builtins.isinstance") and len(v[2]) == 2 and v[2][1][0] == "glob" and v[2][1][1] in self.program.classes:
            q = self.class_of_value(v[2][0], path)
            if q is not None:
                return v[2][1][1] in self.program.classes[q].mro
        # isinstance(p, T) for a parameter declared `p: T` that is not re-bound (annotations are trusted type facts)
        if k == "call" and v[1] == ("glob", "ext:builtins.isinstance") and len(v[2]) == 2 and v[2][1][0] == "glob" and v[2][0][0] == "sym" and v[2][0] not in path.env:
            f2 = self._cur()
            while f2 is not None:
                for x in f2.node.args.posonlyargs + f2.node.args.args + f2.node.args.kwonlyargs:
                    if x.arg == v[2][0][1] and isinstance(x.annotation, (ast.Name, ast.Attribute)):
                        if self.program.resolve(f2.module, x.annotation) == v[2][1][1] and not v[2][1][1].startswith("ext:builtins."):
                            return True
                f2 = f2.parent
        # isinstance(self.f, T) for a field declared `self.f: T` (annotations are trusted type facts)
        if k == "call" and v[1] == ("glob", "ext:builtins.isinstance") and len(v[2]) == 2 and v[2][1][0] == "glob" and v[2][0][0] == "attr" and v[2][0][1] == SELF:
            if self._declared_field_type(v[2][0][2]) == v[2][1][1]:
                return True
        # bool(x) is the truth of x
        if k == "call" and v[1] == ("glob", "ext:builtins.bool") and len(v[2]) == 1 and not v[3]:
            return self.truth(v[2][0], path)
        # isinstance(x, T) for a value whose builtin type is certain
        if k == "call" and v[1] == ("glob", "ext:builtins.isinstance") and len(v[2]) == 2 and not is_exc(v[2][0]):
            ty = self.type_of(v[2][0], path)
            c = v[2][1]
            names = [c] if c[0] != "tuple" else list(c[1])
            if ty is not None:
                known = [n for n in names if n[0] == "glob" and n[1].startswith("ext:builtins.") and n[1].split(".")[-1] in self.BUILTIN_TYPES]
                if any(issubclass(ty, self.BUILTIN_TYPES[n[1].split(".")[-1]]) for n in known):
                    return True  # one matching class decides, whatever the others are
                if len(known) == len(names):
                    return False
        if k == "abs":
            return v[1] == "truthy"
        if k in ("exc", "lambda", "glob", "inst"):
            return True
        if k in ("tuple", "list", "set"):
            if not any(x[0] == "star" for x in v[1]):
                return bool(v[1])
            return True if any(x[0] != "star" for x in v[1]) else None
        if k == "dict":
            if not any(a is None for a, _b in v[1]):
                return bool(v[1])
        if k == "unop" and v[1] == "not":
            t = self.truth(v[2], path)
            return None if t is None else (not t)
        if k == "cmp":
            return self.compare(v, path)
        if k == "call" and v[1] == ("glob", "ext:builtins.isinstance") and len(v[2]) == 2 and is_exc(v[2][0]):
            c = v[2][1]
            names = [c] if c[0] != "tuple" else list(c[1])
            if all(n[0] == "glob" for n in names):
                mro = libfacts.exc_mro(v[2][0][1], self.program)
                if v[2][0][1].startswith("rep:") and not any(libfacts.canon_exc(n[1]) in mro for n in names):
                    # a representative is "some class the code does not name": it is none of the named ones
                    return False
                return any(libfacts.canon_exc(n[1]) in mro for n in names)
        if v in path.facts:
            return path.facts[v]
        t = path.facts.get(("truthy", v))
        if t is not None:
            return t
        if self.nullness(v, path) is True:
            return False
        if self.decide_hook is not None:
            t = self.decide_hook(self, path, v)
            if t is not None:
                return t
        return None

    def _relkey(self, l, r):
        return (l, r, False) if repr(l) <= repr(r) else (r, l, True)

    def get_rel(self, l, r, path) -> frozenset:
        a, b, flipped = self._relkey(l, r)
        if a == b:
            return frozenset("=")
        s = path.rel.get((a, b), self.all_rel)
        if a[0] == "const" and b[0] == "const":
            try:
                s = frozenset("<" if a[1] < b[1] else ">" if a[1] > b[1] else "=")
            except TypeError:
                pass
        return frozenset(FLIP[x] for x in s) if flipped else s

    def set_rel(self, l, r, s, path):
        a, b, flipped = self._relkey(l, r)
        path.rel[(a, b)] = frozenset(FLIP[x] for x in s) if flipped else frozenset(s)

    LEN = ("glob", "ext:builtins.len")

    def _len_test(self, op, l, r):
        """len(x) <op> 0|1  ->  (x, truthiness the comparison expresses) or None"""
        flip = {"<": ">", ">": "<", "<=": ">=", ">=": "<=", "==": "==", "!=": "!="}
        if r[0] == "call" and r[1] == self.LEN and l[0] == "const":
            l, r, op = r, l, flip.get(op)
        if not (l[0] == "call" and l[1] == self.LEN and len(l[2]) == 1 and r[0] == "const" and op):
            return None
        n = r[1]
        table = {(">", 0): True, ("!=", 0): True, (">=", 1): True, ("==", 0): False, ("<=", 0): False, ("<", 1): False}
        if (op, n) in table:
            return l[2][0], table[(op, n)]
        return None

    def compare(self, term, path) -> Optional[bool]:
        _c, op, l, r = term
        lt = self._len_test(op, l, r)
        if lt is not None:
            t = self.truth(lt[0], path)
            return None if t is None else (t == lt[1])
        if op in ("is", "is not", "==", "!=") and (l == NONE or r == NONE):
            other = l if r == NONE else r
            t = self.nullness(other, path)
            if t is None and self.decide_hook is not None:
                t = self.decide_hook(self, path, ("isnone", other))
            if t is None:
                return None
            return t if op in ("is", "==") else (not t)
        if op in ("is", "is not", "==", "!="):
            # type(<exception value>) is / == <class>: the exact class of an abstract exception value is known
            for a, b in ((l, r), (r, l)):
                if a[0] == "call" and a[1] == ("glob", "ext:builtins.type") and len(a[2]) == 1 and is_exc(a[2][0]) and b[0] == "glob":
                    q = a[2][0][1]
                    same = (not q.startswith("rep:")) and libfacts.canon_exc(q) == libfacts.canon_exc(b[1])
                    return same if op in ("is", "==") else (not same)
        if op in ("is", "is not"):
            if l == r:
                return op == "is"
            f = path.facts.get(("cmp", "is", l, r))
            if f is None:
                f = path.facts.get(("cmp", "is", r, l))
            if f is None and self.decide_hook is not None:
                f = self.decide_hook(self, path, ("cmp", "is", l, r))
            if f is None:
                return None
            return f if op == "is" else (not f)
        if op in REL_TRUE:
            if self.decide_hook is not None:
                t = self.decide_hook(self, path, term)
                if t is not None:
                    return t
            s = self.get_rel(l, r, path)
            if s <= REL_TRUE[op]:
                return True
            if not (s & REL_TRUE[op]):
                return False
            return None
        # in / not in
        if op in ("in", "not in"):
            f = path.facts.get(("cmp", "in", l, r))
            if f is None and self.decide_hook is not None:
                f = self.decide_hook(self, path, ("cmp", "in", l, r))
            if f is None:
                return None
            return f if op == "in" else (not f)
        return None

    def assume(self, v, truth: bool, path):
        """refine the path with `v is truthy == truth`"""
        k = v[0]
        if k == "unop" and v[1] == "not":
            return self.assume(v[2], not truth, path)
        if k == "call" and v[1] == ("glob", "ext:builtins.bool") and len(v[2]) == 1 and not v[3]:
            return self.assume(v[2][0], truth, path)
        if k == "cmp":
            _c, op, l, r = v
            lt = self._len_test(op, l, r)
            if lt is not None:
                return self.assume(lt[0], truth == lt[1], path)
            if op in ("is", "is not", "==", "!=") and (l == NONE or r == NONE):
                other = l if r == NONE else r
                path.facts[("isnone", other)] = truth if op in ("is", "==") else (not truth)
                return
            if op in ("is", "is not"):
                path.facts[("cmp", "is", l, r)] = truth if op == "is" else (not truth)
                return
            if op in REL_TRUE:
                s = self.get_rel(l, r, path)
                s = (s & REL_TRUE[op]) if truth else (s - REL_TRUE[op])
                self.set_rel(l, r, s, path)
                return
            if op in ("in", "not in"):
                path.facts[("cmp", "in", l, r)] = truth if op == "in" else (not truth)
                return
        if k in ("sym", "attr", "sub", "call", "item", "proj", "awaited", "bound", "enter"):
            path.facts[("truthy", v)] = truth
            return
        path.facts[v] = truth

    def split(self, cond, path, node=None):
        """[(branch bool, path)] for a condition value; forks when undetermined"""
        t = self.truth(cond, path)
        lineno = getattr(node, "lineno", 0)
        if t is not None:
            path.ev("branch", cond, t, lineno, "determined")
            return [(t, path)]
        p2 = path.fork()
        self.assume(cond, True, path)
        self.assume(cond, False, p2)
        path.ev("branch", cond, True, lineno, "forked")
        p2.ev("branch", cond, False, lineno, "forked")
        self.npaths += 1
        if self.npaths > self.MAX_PATHS:
            raise Undecided("path explosion (> %d)" % self.MAX_PATHS, node)
        return [(True, path), (False, p2)]

    # ------------------------------------------------------------------ statements
    @staticmethod
    def desugar(stmts):
        """
        `acc = []` + `for t in it: [if c:] acc.append(e)`   ->  acc = [e for t in it if c]
        `acc = {}` + `for t in it: [if c:] acc[k] = v`      ->  acc = {k: v for t in it if c}
        (accumulator not otherwise used inside the loop; intervening statements must not mention it)
        """
        out = list(stmts)
        i = 0
        while i < len(out):
            st = out[i]
            name = None
            kind = None
            if isinstance(st, ast.Assign) and len(st.targets) == 1 and isinstance(st.targets[0], ast.Name):
                v = st.value
                if (isinstance(v, ast.List) and not v.elts) or (isinstance(v, ast.Call) and isinstance(v.func, ast.Name) and v.func.id == "list" and not v.args):
                    name, kind = st.targets[0].id, "list"
                elif (isinstance(v, ast.Dict) and not v.keys) or (isinstance(v, ast.Call) and isinstance(v.func, ast.Name) and v.func.id == "dict" and not v.args and not v.keywords):
                    name, kind = st.targets[0].id, "dict"
            if name is not None:
                j = i + 1
                while j < len(out) and not isinstance(out[j], (ast.For,)) and not any(isinstance(x, ast.Name) and x.id == name for x in ast.walk(out[j])) and isinstance(out[j], (ast.Assign, ast.AnnAssign, ast.Expr)):
                    j += 1
                if j < len(out) and isinstance(out[j], ast.For) and not out[j].orelse and len(out[j].body) == 1:
                    loop = out[j]
                    inner = loop.body[0]
                    conds = []
                    while isinstance(inner, ast.If) and not inner.orelse and len(inner.body) == 1:
                        conds.append(inner.test)
                        inner = inner.body[0]
                    comp = None
                    uses = lambda n: any(isinstance(x, ast.Name) and x.id == name for x in ast.walk(n))  # noqa: E731
                    if kind == "list" and isinstance(inner, ast.Expr) and isinstance(inner.value, ast.Call) and isinstance(inner.value.func, ast.Attribute) and inner.value.func.attr == "append" and isinstance(inner.value.func.value, ast.Name) and inner.value.func.value.id == name and len(inner.value.args) == 1:
                        e = inner.value.args[0]
                        if not uses(e) and not uses(loop.iter) and not any(uses(c) for c in conds):
                            comp = ast.ListComp(elt=e, generators=[ast.comprehension(target=loop.target, iter=loop.iter, ifs=conds, is_async=0)])
                    elif kind == "dict" and isinstance(inner, ast.Assign) and len(inner.targets) == 1 and isinstance(inner.targets[0], ast.Subscript) and isinstance(inner.targets[0].value, ast.Name) and inner.targets[0].value.id == name:
                        k, v = inner.targets[0].slice, inner.value
                        if not uses(k) and not uses(v) and not uses(loop.iter) and not any(uses(c) for c in conds):
                            comp = ast.DictComp(key=k, value=v, generators=[ast.comprehension(target=loop.target, iter=loop.iter, ifs=conds, is_async=0)])
                    if comp is not None:
                        new = ast.Assign(targets=[ast.Name(id=name, ctx=ast.Store())], value=comp)
                        ast.copy_location(new, loop)
                        ast.fix_missing_locations(new)
                        for x in ast.walk(new):
                            x._file = getattr(loop, "_file", None)
                        out = out[:i] + out[i + 1 : j] + [new] + out[j + 1 :]
                        continue
            i += 1
        return out

    def exec_block(self, stmts, path) -> List[Outcome]:
        outcomes = []
        frontier = [path]
        stmts = self.desugar(stmts)
        for st in stmts:
            nxt = []
            for p in frontier:
                for o in self.exec_stmt(st, p):
                    if o.kind == "normal":
                        nxt.append(o.path)
                    else:
                        outcomes.append(o)
            frontier = nxt
            if len(frontier) + len(outcomes) > self.MAX_PATHS:
                raise Undecided("path explosion (> %d)" % self.MAX_PATHS, st)
        outcomes.extend(Outcome("normal", p) for p in frontier)
        return outcomes

    def s_InFunction(self, st, path):
        self._funcstack.append(st.fi)
        try:
            return self.exec_block(st.body, path)
        finally:
            self._funcstack.pop()

    def exec_stmt(self, st, path) -> List[Outcome]:
        m = getattr(self, "s_" + type(st).__name__, None)
        if m is None:
            raise Undecided("unsupported statement %s" % type(st).__name__, st)
        return m(st, path)

    def _with_value(self, expr, path, then):
        outs = []
        for k, p, v in self.eval(expr, path):
            if k == "raise":
                outs.append(Outcome("raise", p, v))
            elif k == "cut":
                outs.append(Outcome("cut", p))
            else:
                outs.extend(then(p, v))
        return outs

    def s_Expr(self, st, path):
        if isinstance(st.value, ast.Constant):
            return [Outcome("normal", path)]
        return self._with_value(st.value, path, lambda p, v: [Outcome("normal", p)])

    def s_Pass(self, st, path):
        return [Outcome("normal", path)]

    def s_Global(self, st, path):
        return [Outcome("normal", path)]

    s_Nonlocal = s_Global

    def s_Import(self, st, path):
        for a in st.names:
            nm = (a.asname or a.name).split(".")[0]
            path.env[("sym", nm)] = ("glob", "ext:" + (a.name if a.asname else a.name.split(".")[0]))
        return [Outcome("normal", path)]

    def s_ImportFrom(self, st, path):
        for a in st.names:
            path.env[("sym", a.asname or a.name)] = ("glob", "ext:%s.%s" % (st.module, a.name))
        return [Outcome("normal", path)]

    def s_Assert(self, st, path):
        outs = []
        n0 = len(path.events)
        for k, p, v in self.eval(st.test, path):
            if k == "raise":
                outs.append(Outcome("raise", p, v))
                continue
            t = self.truth(v, p)
            if t is None:
                if self.assert_raises:
                    q = p.fork()
                    self.assume(v, False, q)
                    e = exc_value("ext:builtins.AssertionError", ("assert", st.lineno))
                    q.ev("raise", e, None, st.lineno)
                    outs.append(Outcome("raise", q, e))
                self.assume(v, True, p)
                p.ev("assert", v, st.lineno)
                outs.append(Outcome("normal", p))
            elif t:
                outs.append(Outcome("normal", p))
            elif not self.assert_raises and any(ev[0] in ("fork", "branch") and ev[-1] == "forked" for ev in p.events[n0:]):
                continue  # assertions are assumed to hold: the falsifying fork is infeasible
            else:
                e = exc_value("ext:builtins.AssertionError", ("assert", st.lineno))
                p.ev("raise", e, None, st.lineno)
                outs.append(Outcome("raise", p, e))
        return outs

    def lvalue(self, target, path):
        """[(path, lvalue term)] -- evaluates the base of attribute / subscript targets"""
        if isinstance(target, ast.Name):
            return [(path, ("sym", target.id))], []
        if isinstance(target, ast.Attribute):
            out, raises = [], []
            for k, p, b in self.eval(target.value, path):
                if k == "raise":
                    raises.append(Outcome("raise", p, b))
                else:
                    out.append((p, ("attr", b, target.attr)))
            return out, raises
        if isinstance(target, ast.Subscript):
            states, raises = self.eval_seq([target.value, target.slice], path)
            return [(p, ("sub", b, i)) for p, (b, i) in states], [Outcome("raise", p, v) for _k, p, v in raises]
        raise Undecided("unsupported assignment target %s" % type(target).__name__, target)

    def assign(self, target, value, path, lineno) -> List[Outcome]:
        if isinstance(target, (ast.Tuple, ast.List)):
            elts = target.elts
            stars = [i for i, t in enumerate(elts) if isinstance(t, ast.Starred)]
            if len(stars) == 1:
                # head, *rest, tail = value:  positions before the star count from the front, those after it from the back
                k = stars[0]
                concrete = value[0] in ("tuple", "list") and not any(x[0] == "star" for x in value[1]) and len(value[1]) >= len(elts) - 1
                vals = []
                for i in range(len(elts)):
                    if i < k:
                        vals.append(value[1][i] if concrete else ("sub", value, ("const", i)))
                    elif i == k:
                        n_after = len(elts) - 1 - k
                        if concrete:
                            vals.append(("list", tuple(value[1][k : len(value[1]) - n_after])))
                        else:
                            vals.append(("sub", value, ("slice", ("const", k), ("const", -n_after) if n_after else NONE, NONE)))
                    else:
                        back = i - len(elts)
                        vals.append(value[1][back] if concrete else ("sub", value, ("const", back)))
            elif value[0] in ("tuple", "list") and len(value[1]) == len(elts) and not any(x[0] == "star" for x in value[1]):
                vals = list(value[1])
            else:
                vals = [("proj", value, i) for i in range(len(elts))]
            outs = [Outcome("normal", path)]
            for t, v in zip(elts, vals):
                nxt = []
                for o in outs:
                    if o.kind != "normal":
                        nxt.append(o)
                    else:
                        nxt.extend(self.assign(t.value if isinstance(t, ast.Starred) else t, v, o.path, lineno))
                outs = nxt
            return outs
        lvs, raises = self.lvalue(target, path)
        outs = list(raises)
        for p, lv in lvs:
            p.env[lv] = value
            if lv[0] != "sym":
                p.ev("store", lv, value, lineno)
            else:
                p.ev("bind", lv[1], value, lineno)
            outs.append(Outcome("normal", p))
        return outs

    def s_Assign(self, st, path):
        def then(p, v):
            outs = [Outcome("normal", p)]
            for t in st.targets:
                nxt = []
                for o in outs:
                    if o.kind != "normal":
                        nxt.append(o)
                    else:
                        nxt.extend(self.assign(t, v, o.path, st.lineno))
                outs = nxt
            return outs

        return self._with_value(st.value, path, then)

    def s_AnnAssign(self, st, path):
        if st.value is None:
            return [Outcome("normal", path)]
        return self._with_value(st.value, path, lambda p, v: self.assign(st.target, v, p, st.lineno))

    def s_AugAssign(self, st, path):
        # evaluation order: target (load), value, store
        lvs, raises = self.lvalue(st.target, path)
        outs = list(raises)
        for p, lv in lvs:
            old = p.env.get(lv, lv)

            def then(q, v, lv=lv, old=old):
                op = OPNAME[type(st.op)]
                new = ("binop", op, old, v)
                q.env[lv] = new
                q.ev("aug", lv, op, v, st.lineno)
                return [Outcome("normal", q)]

            outs.extend(self._with_value(st.value, p, then))
        return outs

    def s_Delete(self, st, path):
        for t in st.targets:
            lvs, _r = self.lvalue(t, path)
            for p, lv in lvs:
                p.env.pop(lv, None)
                p.ev("delete", lv, st.lineno)
        return [Outcome("normal", path)]

    def s_Return(self, st, path):
        if st.value is None:
            path.ev("return", NONE, st.lineno)
            return [Outcome("return", path, NONE)]

        def then(p, v):
            p.ev("return", v, st.lineno)
            return [Outcome("return", p, v)]

        return self._with_value(st.value, path, then)

    def s_Raise(self, st, path):
        if st.exc is None:
            if not path.exc_stack:
                raise Undecided("bare raise outside a handler", st)
            e = path.exc_stack[-1]
            path.ev("reraise", e, st.lineno)
            return [Outcome("raise", path, e)]

        def then(p, v):
            if not is_exc(v):
                if v[0] == "glob" and libfacts.is_exception_class(v[1], self.program):
                    v = exc_value(v[1], ("new", st.lineno))
                else:
                    v = exc_value("rep:AnyException", ("value", v))
            if st.cause is not None:
                res = self.eval(st.cause, p)
                if len(res) != 1 or res[0][0] != "value":
                    raise Undecided("unsupported raise-from expression", st)
                cause = res[0][2]
                v = v[:4] + (("cause", cause),)
            elif p.exc_stack:
                # implicit context is not a cause
                pass
            p.ev("raise", v, v[4], st.lineno)
            return [Outcome("raise", p, v)]

        return self._with_value(st.exc, path, then)

    def s_If(self, st, path):
        outs = []
        for k, p, v in self.eval(st.test, path):
            if k == "raise":
                outs.append(Outcome("raise", p, v))
                continue
            for branch, q in self.split(v, p, st):
                outs.extend(self.exec_block(st.body if branch else st.orelse, q))
        return outs

    # ---- match: the class / value / singleton / or / capture / wildcard patterns, read as the isinstance / == / is chain
    def _match_test(self, pat, subj):
        """(test expression or None for 'always', [(name, value expression)] captures); None when not modelled"""
        def call(fn, *args):
            return ast.Call(func=ast.Name(id=fn, ctx=ast.Load()), args=list(args), keywords=[])

        if isinstance(pat, ast.MatchAs):
            if pat.pattern is None:
                return (None, [(pat.name, subj)] if pat.name else [])
            inner = self._match_test(pat.pattern, subj)
            if inner is None:
                return None
            return inner[0], inner[1] + ([(pat.name, subj)] if pat.name else [])
        if isinstance(pat, ast.MatchClass) and not pat.patterns and not pat.kwd_patterns:
            return call("isinstance", subj, pat.cls), []
        if isinstance(pat, ast.MatchValue):
            return ast.Compare(left=subj, ops=[ast.Eq()], comparators=[pat.value]), []
        if isinstance(pat, ast.MatchSingleton):
            return ast.Compare(left=subj, ops=[ast.Is()], comparators=[ast.Constant(value=pat.value)]), []
        if isinstance(pat, ast.MatchOr):
            parts = [self._match_test(x, subj) for x in pat.patterns]
            if any(x is None or x[1] for x in parts):
                return None
            if any(x[0] is None for x in parts):
                return None, []
            # isinstance(x, A) or isinstance(x, B)  ==  isinstance(x, (A, B))
            if all(isinstance(x[0], ast.Call) and dotted(x[0].func) == "isinstance" for x in parts):
                return call("isinstance", subj, ast.Tuple(elts=[x[0].args[1] for x in parts], ctx=ast.Load())), []
            return ast.BoolOp(op=ast.Or(), values=[x[0] for x in parts]), []
        return None

    def s_Match(self, st, path):
        outs = []
        for k, p, v in self.eval(st.subject, path):
            if k == "raise":
                outs.append(Outcome("raise", p, v))
                continue
            tmp = "__match_subject_%d" % st.lineno
            p.env[("sym", tmp)] = v
            subj = ast.copy_location(ast.Name(id=tmp, ctx=ast.Load()), st)
            outs.extend(self._match_cases(st, list(st.cases), subj, p))
        for o in outs:
            o.path.env.pop(("sym", "__match_subject_%d" % st.lineno), None)
        return outs

    def _match_cases(self, st, cases, subj, path):
        if not cases:
            return [Outcome("normal", path)]
        case, rest = cases[0], cases[1:]
        mt = self._match_test(case.pattern, subj)
        if mt is None:
            raise Undecided("match pattern %s is not modelled" % ast.unparse(case.pattern), case.pattern)
        test, captures = mt
        outs = []

        def matched(q):
            for name, val in captures:
                for _k, _q, vv in self.eval(val, q):
                    q.env[("sym", name)] = vv
            if case.guard is None:
                outs.extend(self.exec_block(case.body, q))
                return
            for k2, q2, g in self.eval(case.guard, q):
                if k2 == "raise":
                    outs.append(Outcome("raise", q2, g))
                    continue
                for br, q3 in self.split(g, q2, case.guard):
                    if br:
                        outs.extend(self.exec_block(case.body, q3))
                    else:
                        outs.extend(self._match_cases(st, rest, subj, q3))

        if test is None:
            matched(path)
            return outs
        ast.fix_missing_locations(ast.copy_location(test, case.pattern))
        for k, p, v in self.eval(test, path):
            if k == "raise":
                outs.append(Outcome("raise", p, v))
                continue
            for br, q in self.split(v, p, case.pattern):
                if br:
                    matched(q)
                else:
                    outs.extend(self._match_cases(st, rest, subj, q))
        return outs

    def s_While(self, st, path):
        outs = []
        frontier = [path]
        for i in range(self.unroll + 1):
            nxt = []
            for p in frontier:
                for k, p1, v in self.eval(st.test, p):
                    if k == "raise":
                        outs.append(Outcome("raise", p1, v))
                        continue
                    for enter, pp in self.split(v, p1, st):
                        if not enter:
                            pp.ev("loop-exit", st.lineno, i)
                            outs.extend(self.exec_block(st.orelse, pp))
                            continue
                        if i == self.unroll:
                            pp.ev("loop-cut", st.lineno)
                            outs.append(Outcome("cut", pp))
                            continue
                        pp.ev("loop-iter", st.lineno, i)
                        for o in self.exec_block(st.body, pp):
                            if o.kind in ("normal", "continue"):
                                nxt.append(o.path)
                            elif o.kind == "break":
                                o.path.ev("loop-break", st.lineno, i)
                                outs.append(Outcome("normal", o.path))
                            else:
                                outs.append(o)
            frontier = nxt
            if not frontier:
                break
        return outs

    def s_For(self, st, path):
        outs = []
        for k, p, v in self.eval(st.iter, path):
            if k == "raise":
                outs.append(Outcome("raise", p, v))
                continue
            concrete = None
            if v[0] in ("tuple", "list") and any(x[0] == "star" for x in v[1]) and all(x[0] != "star" or (x[1][0] in ("tuple", "list") and not any(y[0] == "star" for y in x[1][1])) for x in v[1]):
                # [a, *<a concrete list>]: the elements are known
                flat_ = []
                for x in v[1]:
                    flat_.extend(x[1][1] if x[0] == "star" else [x])
                v = (v[0], tuple(flat_))
            if v[0] in ("tuple", "list") and not any(x[0] == "star" for x in v[1]):
                concrete = list(v[1])
            elif v[0] == "const" and isinstance(v[1], (tuple, list)):
                concrete = [("const", x) for x in v[1]]  # a literal default / module constant
            frontier = [p]
            i = 0
            while True:
                nxt = []
                limit = len(concrete) if concrete is not None else self.unroll
                for pp in frontier:
                    if concrete is None or i == limit:
                        pe = pp.fork() if (concrete is None and i < limit) else pp
                        pe.ev("loop-exit" if (concrete is not None or i < limit) else "loop-cut", st.lineno, i)
                        outs.extend(self.exec_block(st.orelse, pe))
                        if pe is pp:
                            continue
                    if i >= limit:
                        continue
                    pp.ev("loop-iter", st.lineno, i)
                    item = concrete[i] if concrete is not None else ("item", v, i)
                    for o0 in self.assign(st.target, item, pp, st.lineno):
                        if o0.kind != "normal":
                            outs.append(o0)
                            continue
                        for o in self.exec_block(st.body, o0.path):
                            if o.kind in ("normal", "continue"):
                                nxt.append(o.path)
                            elif o.kind == "break":
                                o.path.ev("loop-break", st.lineno, i)
                                outs.append(Outcome("normal", o.path))
                            else:
                                outs.append(o)
                frontier = nxt
                i += 1
                if not frontier or i > limit:
                    break
        return outs

    s_AsyncFor = s_For

    def s_Break(self, st, path):
        return [Outcome("break", path)]

    def s_Continue(self, st, path):
        return [Outcome("continue", path)]

    EXIT_STACKS = ("ext:contextlib.ExitStack", "ext:contextlib.AsyncExitStack")

    def _own_contextmanager(self, expr, path):
        """(FuncInfo, receiver term, call node) when `expr` calls a package function decorated with
        @contextmanager whose body has exactly one `yield` statement and no return; else None"""
        if not isinstance(expr, ast.Call):
            return None
        d = dotted(expr.func)
        if d is None:
            return None
        cur = self._cur()
        if d.startswith("self.") and d.count(".") == 1 and cur is not None:
            f = ("attr", ("sym", "self"), d.split(".")[1])
        else:
            r = self.program.resolve(self.module if cur is None else cur.module, expr.func)
            f = ("glob", r) if r else None
        fi = self.resolve_callee(f, path) if f is not None else None
        if fi is None or not any((n or "").split(".")[-1] in ("contextmanager", "asynccontextmanager") for n in fi.decorator_names()):
            return None
        from .util import walk_no_nested

        ys = [n for n in walk_no_nested(fi.node) if isinstance(n, (ast.Yield, ast.YieldFrom))]
        if len(ys) != 1 or not isinstance(ys[0], ast.Yield) or any(isinstance(n, ast.Return) for n in walk_no_nested(fi.node)):
            return None
        return fi, f

    def _splice_cm(self, fi, yield_target, body):
        """the context manager's body with its `yield` statement replaced by (binding the yielded value and) `body`"""
        found = {"n": 0}

        def rewrite(stmts):
            out = []
            for stx in stmts:
                if isinstance(stx, ast.Expr) and isinstance(stx.value, ast.Yield):
                    found["n"] += 1
                    if yield_target is not None:
                        val = stx.value.value if stx.value.value is not None else ast.Constant(value=None)
                        out.append(ast.copy_location(ast.Assign(targets=[yield_target], value=val), stx))
                    out.extend(body)
                    continue
                new = stx
                for fld in ("body", "orelse", "finalbody"):
                    seq = getattr(stx, fld, None)
                    if isinstance(seq, list) and seq and isinstance(seq[0], ast.stmt):
                        if new is stx:
                            new = copy.copy(stx)
                        setattr(new, fld, rewrite(seq))
                if isinstance(stx, ast.Try) and stx.handlers:
                    if new is stx:
                        new = copy.copy(stx)
                    hs = []
                    for h in stx.handlers:
                        h2 = copy.copy(h)
                        h2.body = rewrite(h.body)
                        hs.append(h2)
                    new.handlers = hs
                out.append(new)
            return out

        res = rewrite(fi.node.body)
        return res if found["n"] == 1 else None

    def s_With(self, st, path):
        if len(st.items) > 1:
            # with a, b: body  ==  with a: with b: body
            inner = copy.copy(st)
            inner.items = st.items[1:]
            outer = copy.copy(st)
            outer.items = st.items[:1]
            outer.body = [inner]
            return self.s_With(outer, path)
        item = st.items[0]
        # --- a package function decorated with @contextmanager: its body is spliced around the with-body
        cm = self._own_contextmanager(item.context_expr, path) if self.depth < self.MAX_INLINE else None
        if cm is not None:
            fi, f = cm
            used = {n.id for b in st.body for n in ast.walk(b) if isinstance(n, ast.Name)}
            clash = (self.locals_of(fi) - {"self", "cls"}) & used
            caller_block = InFunction(body=list(st.body))
            caller_block.fi = self._cur()
            caller_block.lineno = st.lineno
            target_stmt = None
            if item.optional_vars is not None:
                pass
            spliced = self._splice_cm(fi, item.optional_vars, [caller_block]) if not clash else None
            if spliced is not None:
                outs = []
                for k, p2, args, kwargs in self._eval_call_args(item.context_expr, path):
                    if k == "raise":
                        outs.append(Outcome("raise", p2, args))
                        continue
                    recv = f[1] if f[0] == "attr" else None
                    binding = self.bind_args(fi, recv, args, kwargs, p2)
                    if binding is None:
                        outs = None
                        break
                    saved = {}
                    for name, v in binding.items():
                        key = ("sym", name)
                        if name in ("self", "cls") and v == key:
                            continue
                        saved[key] = p2.env.get(key)
                        p2.env[key] = v
                    p2.ev("with-enter", ("call", f, tuple(args), tuple(kwargs), 0), st.lineno)
                    p2.ev("inline-enter", fi.qual, st.lineno)
                    self.depth += 1
                    self._funcstack.append(fi)
                    try:
                        res = self.exec_block(spliced, p2)
                    finally:
                        self._funcstack.pop()
                        self.depth -= 1
                    for o in res:
                        for key, old in saved.items():
                            if old is None:
                                o.path.env.pop(key, None)
                            else:
                                o.path.env[key] = old
                        o.path.ev("inline-exit", fi.qual, o.kind)
                        o.path.ev("with-exit", st.lineno, o.kind)
                        outs.append(o)
                if outs is not None:
                    return outs
        # --- contextlib.suppress(E, ...): the block with those exceptions swallowed
        ce = item.context_expr
        cur_ = self._cur()
        if isinstance(ce, ast.Call) and self.program.resolve(cur_.module if cur_ is not None else self.module, ce.func) == "ext:contextlib.suppress" and ce.args and not ce.keywords and item.optional_vars is None and not isinstance(st, ast.AsyncWith):
            handler = ast.ExceptHandler(type=ce.args[0] if len(ce.args) == 1 else ast.Tuple(elts=list(ce.args), ctx=ast.Load()), name=None, body=[ast.Pass()])
            tr = ast.Try(body=list(st.body), handlers=[handler], orelse=[], finalbody=[])
            for n in ast.walk(tr):
                if not hasattr(n, "lineno"):
                    ast.copy_location(n, st)
            ast.fix_missing_locations(tr)
            return self.s_Try(tr, path)
        # --- an own context manager CLASS whose __exit__ never swallows:  x = C(...).__enter__(); try: BODY finally: __exit__
        if isinstance(ce, ast.Call) and not isinstance(st, ast.AsyncWith) and self.depth < self.MAX_INLINE:
            q = self.program.resolve(cur_.module if cur_ is not None else self.module, ce.func)
            cmc = self.program.classes.get(q) if q else None
            ent = self.program.lookup_method(cmc, "__enter__") if cmc is not None else None
            ext = self.program.lookup_method(cmc, "__exit__") if cmc is not None else None
            if ent is not None and ext is not None and ent.cls is not None and ext.cls is not None and not ent.is_async and not ext.is_async:
                from .util import walk_no_nested

                swallows = any(isinstance(r, ast.Return) and r.value is not None and not (isinstance(r.value, ast.Constant) and not r.value.value) for r in walk_no_nested(ext.node))
                if not swallows:
                    outs = []
                    for k, p2, v in self.eval(ce, path):
                        if k == "raise":
                            outs.append(Outcome("raise", p2, v))
                            continue
                        p2.ev("with-enter", v, st.lineno)
                        res = self.inline(ent, ("attr", v, "__enter__"), (), (), p2, st)
                        if res is None:
                            outs = None
                            break
                        for k3, p3, v3 in res:
                            if k3 == "raise":
                                outs.append(Outcome("raise", p3, v3))
                                continue
                            paths = [p3]
                            if item.optional_vars is not None:
                                paths = []
                                for o in self.assign(item.optional_vars, v3, p3, st.lineno):
                                    (paths.append(o.path) if o.kind == "normal" else outs.append(o))
                            for p4 in paths:
                                for o in self.exec_block(st.body, p4):
                                    # __exit__ runs on every way out of the block; what it raises replaces the outcome
                                    exits = self.inline(ext, ("attr", v, "__exit__"), (NONE, NONE, NONE), (), o.path, st)
                                    if exits is None:
                                        raise Undecided("__exit__ of %s is not modelled" % cmc.qual, st)
                                    for k5, p5, v5 in exits:
                                        p5.ev("with-exit", st.lineno, o.kind)
                                        outs.append(Outcome("raise", p5, v5) if k5 == "raise" else Outcome(o.kind, p5, o.value))
                    if outs is not None:
                        return outs
        outs = []
        for k, p2, v in self.eval(item.context_expr, path):
            if k == "raise":
                outs.append(Outcome("raise", p2, v))
                continue
            p2.ev("with-enter", v, st.lineno)
            entered = ("enter", v)
            start = len(p2.events)
            is_stack = v[0] == "call" and v[1][0] == "glob" and v[1][1] in self.EXIT_STACKS
            paths = []
            if item.optional_vars is not None:
                for o in self.assign(item.optional_vars, entered, p2, st.lineno):
                    if o.kind == "normal":
                        paths.append(o.path)
                    else:
                        outs.append(o)
            else:
                paths.append(p2)
            for p in paths:
                for o in self.exec_block(st.body, p):
                    if is_stack:
                        # ExitStack: the callbacks registered inside the block run now, last registered first
                        cbs = [e[1] for e in o.path.events[start:] if e[0] == "call" and e[1][1] == ("attr", entered, "callback") and e[1][2]]
                        for ct in reversed(cbs):
                            for _k, _p, _v in self.apply(ct[2][0], tuple(ct[2][1:]), tuple(ct[3]), o.path, st):
                                pass  # the call event is what matters; a raising callback is not modelled
                    o.path.ev("with-exit", st.lineno, o.kind)
                    outs.append(o)
        return outs

    s_AsyncWith = s_With

    def handler_types(self, h, path):
        if h.type is None:
            return None
        elts = h.type.elts if isinstance(h.type, ast.Tuple) else [h.type]
        names = []
        for e in elts:
            res = self.eval(e, path)
            v = res[0][2] if len(res) == 1 and res[0][0] == "value" else None
            if v is not None and v[0] == "tuple" and all(x[0] == "glob" for x in v[1]):
                names.extend(x[1] for x in v[1])  # a local / display of classes
                continue
            if v is None or v[0] != "glob":
                raise Undecided("handler type %s is not a resolvable class" % ast.unparse(e), h)
            group = self._module_class_tuple(v[1])
            if group is not None:
                names.extend(group)  # a module-level tuple of classes:  _CLOSED = (trio.Cancelled, trio.ClosedResourceError)
            else:
                names.append(v[1])
        return names

    def _module_class_tuple(self, qual):
        if ":" not in qual or qual.startswith("ext:") or qual in self.program.classes or qual in self.program.functions:
            return None
        cache = self.program.__dict__.setdefault("_class_tuples", {})
        if qual in cache:
            return cache[qual]
        cache[qual] = None
        mname, _, nm = qual.partition(":")
        mod = self.program.modules.get(mname)
        st = mod.defs.get(nm) if mod is not None and "." not in nm else None
        v = getattr(st, "value", None)
        if st is None or st not in mod.tree.body or not isinstance(v, ast.Tuple) or not v.elts or not all(isinstance(e, (ast.Name, ast.Attribute)) for e in v.elts):
            return None
        binds = [n for n in ast.walk(mod.tree) if isinstance(n, ast.Name) and n.id == nm and isinstance(n.ctx, (ast.Store, ast.Del))]
        if len(binds) != 1 or any(isinstance(n, (ast.Global, ast.Nonlocal)) and nm in n.names for n in ast.walk(mod.tree)):
            return None
        out = [self.program.resolve(mod, e) for e in v.elts]
        if all(q is not None and libfacts.is_exception_class(q, self.program) for q in out):
            cache[qual] = out
        return cache[qual]

    def exc_matches(self, raised, names) -> bool:
        if names is None:
            return True
        mro = libfacts.exc_mro(raised[1], self.program)
        return any(libfacts.canon_exc(n) in mro for n in names)

    def s_Try(self, st, path):
        body_outs = self.exec_block(st.body, path)
        after = []
        for o in body_outs:
            if o.kind == "raise":
                raised = o.value
                for h in st.handlers:
                    names = self.handler_types(h, o.path)
                    if self.exc_matches(raised, names):
                        hp = o.path
                        hp.ev("caught", raised, tuple(names or ("*",)), h.lineno)
                        if h.name:
                            hp.env[("sym", h.name)] = raised
                        hp.exc_stack.append(raised)
                        for ho in self.exec_block(h.body, hp):
                            if ho.path.exc_stack and ho.path.exc_stack[-1] == raised:
                                ho.path.exc_stack.pop()
                            if h.name:
                                ho.path.env.pop(("sym", h.name), None)
                            after.append(ho)
                        break
                else:
                    after.append(o)
            elif o.kind == "normal":
                after.extend(self.exec_block(st.orelse, o.path))
            else:
                after.append(o)
        if not st.finalbody:
            return after
        outs = []
        for o in after:
            o.path.ev("finally-enter", st.lineno, o.kind)
            for fo in self.exec_block(st.finalbody, o.path):
                if fo.kind == "normal":
                    outs.append(Outcome(o.kind, fo.path, o.value))
                else:
                    outs.append(fo)  # the finally block overrides
        return outs

    s_TryStar = s_Try

    def s_FunctionDef(self, st, path):
        fi = self.program.info(st)
        path.env[("sym", st.name)] = ("glob", fi.qual) if fi is not None else ("func", st.name)
        return [Outcome("normal", path)]

    s_AsyncFunctionDef = s_FunctionDef

    def s_ClassDef(self, st, path):
        return [Outcome("normal", path)]


# ---------------------------------------------------------------------- convenience
def throw_at(pred, excs):
    """call hook: the call sites selected by pred(callterm, node) raise each of excs"""

    def hook(interp, path, callterm, node):
        if pred(callterm, node):
            return [("raise", e) for e in excs]
        return None

    return hook


def callee_name(callterm):
    """dotted rendering of a call's function term"""
    f = callterm[1] if callterm[0] == "call" else callterm
    return show(f)


REPRESENTATIVES = {
    "AnyException": exc_value("rep:AnyException", "injected"),
    "OtherBase": exc_value("rep:OtherBase", "injected"),
    "KeyboardInterrupt": exc_value("ext:builtins.KeyboardInterrupt", "injected"),
    "asyncio.CancelledError": exc_value("ext:asyncio.CancelledError", "injected"),
    "trio.Cancelled": exc_value("ext:trio.Cancelled", "injected"),
}
