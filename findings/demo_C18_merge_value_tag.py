"""
C18: a python/* tag or an unregistered !tag on the value of a YAML merge key is rejected like at any other position.

On the pinned tree (before fixes 9b66fdf / b340bae) the three merge documents below loaded WITHOUT an error: PyYAML's
SafeConstructor.flatten_mapping splices the content of `<<` values into the enclosing mapping and never looks at the
tag of the value node.  Run with  PYTHONPATH=<tree>/src /venv/bin/python -m pytest -q -p no:cacheprovider <this file>
"""
import pytest
import yaml

from cobald.daemon.core.config import COBalDLoader


@pytest.mark.parametrize(
    "document",
    [
        "a: {<<: !!python/object/apply:os.system {x: 1}}",
        "a: {<<: !Unregistered {x: 1}}",
        "a: {<<: [{y: 2}, !Unregistered {x: 1}]}",
        "a: {<<: {<<: !!python/object/new:os.system {x: 1}, z: 3}}",
        # the tag on a LIST of merge values (only fixed by b340bae)
        "a: {<<: !!python/tuple [{a: 1}]}",
        "a: {<<: !Nope [{a: 1}]}",
    ],
)
def test_tag_on_merge_value_is_rejected(document):
    with pytest.raises(yaml.constructor.ConstructorError):
        yaml.load(document, Loader=COBalDLoader)


def test_plain_merges_still_work():
    document = "base: &base {x: 1, y: 2}\na: {<<: *base, z: 3}\nb: {<<: [*base, {w: 4}]}\n"
    assert yaml.load(document, Loader=COBalDLoader) == {
        "base": {"x": 1, "y": 2},
        "a": {"x": 1, "y": 2, "z": 3},
        "b": {"x": 1, "y": 2, "w": 4},
    }
