"""
C10: execute(..., flavour=asyncio) must raise the very exception the payload raised -- also one whose truth value is
false (an exception class defining __len__ or __bool__): concurrent.futures.Future.result() tests `if self._exception:`,
so on the unrepaired tree such an exception is swallowed and execute returns None.
"""
import asyncio
import threading
import time

import pytest
import trio

from cobald.daemon.runners.service import ServiceRunner


class EmptyError(Exception):
    def __len__(self):
        return 0


class FalseError(Exception):
    def __bool__(self):
        return False


@pytest.fixture
def runtime():
    runner = ServiceRunner(accept_delay=0.05)
    thread = threading.Thread(target=runner.accept, daemon=True)
    thread.start()
    assert runner.running.wait(5)
    yield runner
    runner.shutdown()
    thread.join(5)


@pytest.mark.parametrize("exc_type", [EmptyError, FalseError, KeyError])
@pytest.mark.parametrize("flavour", [asyncio, trio, threading])
def test_execute_raises_the_payloads_exception(runtime, flavour, exc_type):
    error = exc_type("failed")
    if flavour is threading:
        def payload():
            raise error
    else:
        async def payload():
            raise error
    with pytest.raises(exc_type) as caught:
        runtime.execute(payload, flavour=flavour)
    assert caught.value is error
    # neither outcome counts as a background failure
    time.sleep(0.1)
    assert runtime.running.is_set()
