"""
C03: a payload adopted from another thread while the runners are starting is neither lost nor refused.

The schedule is forced with one cooperative gate: `MetaRunner.running` is replaced by an Event whose is_set(), when
called by the submitting thread and answering False, pauses that thread until the runtime has started its runners and
flushed its queue -- exactly the preemption point between the check `self.running.is_set()` and the queueing
statement in MetaRunner.register_payload.  Nothing else is patched.
"""
import threading
import time

from cobald.daemon.runners.meta_runner import MetaRunner


def test_payload_registered_while_runners_start_is_not_lost():
    meta = MetaRunner()
    started = threading.Event()
    submitter = {}

    class Gate(threading.Event):
        def is_set(self):
            answer = super().is_set()
            if threading.current_thread() is submitter.get("thread") and not answer:
                submitter["checked"].set()
                # preempted here: the runtime launches its runners, reports running and flushes the queue
                deadline = time.time() + 5
                while not super().is_set() and time.time() < deadline:
                    time.sleep(0.01)
                time.sleep(0.3)
            return answer

    meta.running = Gate()
    submitter["checked"] = threading.Event()

    def payload():
        started.set()

    def submit():
        meta.register_payload(payload, flavour=threading)

    t = threading.Thread(target=submit, daemon=True)
    submitter["thread"] = t
    t.start()
    assert submitter["checked"].wait(5)  # the submitter has seen "not running" and is about to queue
    runner = threading.Thread(target=meta.run, daemon=True)
    runner.start()
    t.join(10)
    assert not t.is_alive()
    try:
        assert started.wait(2), "the payload was queued after the queue had been flushed: it never starts in this run (queues: %r)" % (meta._runner_queues,)
    finally:
        meta.stop()
        runner.join(5)
