import asyncio, threading, time
import pytest
from cobald.daemon.runners.meta_runner import MetaRunner


def run_once(meta):
    t = threading.Thread(target=meta.run, daemon=True)
    t.start()
    assert meta.running.wait(5)
    time.sleep(0.1)
    meta.stop()
    t.join(5)
    assert not t.is_alive()


@pytest.mark.parametrize("flavour", [asyncio, threading])
def test_register_after_graceful_stop_is_queued_for_next_run(flavour):
    meta = MetaRunner()
    run_once(meta)
    ran = []
    if flavour is threading:
        def payload():
            ran.append(meta.running.is_set())
    else:
        async def payload():
            ran.append(meta.running.is_set())
    # the run has ended: like before the first run (and like after a failed run) the payload must be queued
    meta.register_payload(payload, flavour=flavour)
    time.sleep(0.3)
    assert ran == [], "the payload was started outside of any run"
    assert meta._runner_queues.get(flavour) == [payload]
