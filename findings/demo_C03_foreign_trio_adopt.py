"""
C03 (OPEN finding O3.11): adopt(..., flavour=trio) from inside a threading payload that hosts its OWN trio.run.

trio.from_thread.run refuses to be called from ANY thread that is running a trio task (bare RuntimeError), not only from
the runtime's trio thread.  TrioRunner.register_payload takes that RuntimeError to mean "we are in our own trio thread" and
falls back to channel.send_nowait -- from a foreign thread.  adopt raises AssertionError instead of returning None, the
payload is never started and the runtime's trio loop is left wedged (shutdown does not return), which is why the scenario
runs in a child process that is left with os._exit.

This demonstration FAILS on the current tree (the finding is recorded, not repaired: see DESIGN.md 11.13).
"""
import subprocess
import sys

SCENARIO = r'''
import os, threading, trio
from cobald.daemon.runners.service import ServiceRunner

runner = ServiceRunner(accept_delay=0.05)
threading.Thread(target=runner.accept, daemon=True).start()
assert runner.running.wait(5)
seen, started, done = [], threading.Event(), threading.Event()

async def adopted():
    started.set()

def thread_payload():
    async def private_main():
        try:
            seen.append(("returned", runner.adopt(adopted, flavour=trio)))
        except BaseException as err:
            seen.append(("raised", type(err).__name__))
        await trio.sleep(0.2)
    try:
        trio.run(private_main)
    finally:
        done.set()

runner.adopt(thread_payload, flavour=threading)
done.wait(5)
print("SEEN", seen, "STARTED", started.wait(2), flush=True)
os._exit(0)
'''


def test_adopt_from_a_foreign_trio_thread_returns_none_and_starts_the_payload():
    out = subprocess.run([sys.executable, "-c", SCENARIO], capture_output=True, text=True, timeout=30).stdout
    assert "SEEN [('returned', None)] STARTED True" in out, out
