"""
C18: a python/* tag or an unregistered !tag must be rejected ANYWHERE in the document.  PyYAML uses some nodes without ever
constructing them, so their tag reaches no constructor (not even the rejecting catch-all): the value of a `=` key below a
scalar-typed mapping, and the one-pair mappings of !!omap / !!pairs.  On the unrepaired tree these documents load.
"""
import io

import pytest
import yaml

from cobald.daemon.core.config import COBalDLoader

OFFENDING = [
    "a: !!str {=: !!python/name:os.system x}",
    "a: !!int {=: !NotAPlugin 3}",
    "a: !!float {=: !!python/object/apply:os.getcwd []}",
    "a: !!omap [ !!python/name:os.system {k: 1} ]",
    "a: !!omap [ !!python/object/apply:os.system {k: 1} ]",
    "a: !!pairs [ !NotAPlugin {k: 1} ]",
    "- !!pairs [ {k: 1}, !!python/module:os {j: 2} ]",
]

VALID = [
    ("a: !!str {=: x}", {"a": "x"}),
    ("a: !!omap [ {k: 1}, {j: 2} ]", {"a": [("k", 1), ("j", 2)]}),
    ("a: !!pairs [ {k: 1}, {k: 2} ]", {"a": [("k", 1), ("k", 2)]}),
    ("b: &b {x: 1}\na: {<<: *b, y: 2}", {"b": {"x": 1}, "a": {"x": 1, "y": 2}}),
    ("a: [1, 2.5, true, null, !!set {x}]", {"a": [1, 2.5, True, None, {"x"}]}),
]


@pytest.mark.parametrize("text", OFFENDING)
def test_offending_tag_is_rejected(text):
    with pytest.raises(yaml.YAMLError):
        yaml.load(io.StringIO(text), Loader=COBalDLoader)


@pytest.mark.parametrize("text, expected", VALID)
def test_valid_documents_load_as_before(text, expected):
    assert yaml.load(io.StringIO(text), Loader=COBalDLoader) == expected


def test_recursive_document_still_loads():
    data = yaml.load(io.StringIO("a: &a [1, *a]"), Loader=COBalDLoader)
    assert data["a"][1] is data["a"]
