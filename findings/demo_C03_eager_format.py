import threading, time, functools
import trio
from cobald.daemon.runners.service import ServiceRunner


class Evil:
    def __repr__(self):
        raise ValueError("repr is not available right now")


def test_adopt_during_cleanup_does_not_raise():
    runner = ServiceRunner(accept_delay=0.01)
    seen = []

    async def late(arg):
        pass

    async def payload():
        try:
            await trio.sleep(100)
        finally:
            # cleanup while the runtime is shutting down: adopting may discard, but must not raise
            try:
                runner.adopt(late, Evil(), flavour=trio)
                seen.append("returned")
            except BaseException as err:  # noqa
                seen.append(("raised", type(err).__name__))
                raise

    runner.adopt(payload, flavour=trio)
    thread = threading.Thread(target=runner.accept, daemon=True)
    thread.start()
    assert runner.running.wait(5)
    time.sleep(0.2)
    runner.shutdown()
    thread.join(5)
    assert not thread.is_alive()
    assert seen == ["returned"], seen
