"""
C01: a threading payload that raises StopIteration (an Exception subclass) must end the blocking run with
RuntimeError whose cause chain leads to the StopIteration -- asyncio.Future.set_exception refuses StopIteration
with TypeError inside the loop callback, so on the unrepaired tree the failure is dropped and the runtime keeps running.
"""
import threading
import time

import pytest

from cobald.daemon.runners.service import ServiceRunner


def _causes(exc):
    seen = []
    todo = [exc]
    while todo:
        e = todo.pop()
        if e is None or e in seen:
            continue
        seen.append(e)
        todo.append(e.__cause__)
        todo.extend(getattr(e, "exceptions", ()))
    return seen


@pytest.mark.parametrize("exc_type", [StopIteration, StopAsyncIteration, KeyError])
def test_thread_payload_failure_ends_run(exc_type):
    runner = ServiceRunner(accept_delay=0.05)
    outcome = {}

    def payload():
        time.sleep(0.1)
        raise exc_type("payload failed")

    runner.adopt(payload, flavour=threading)

    def run():
        try:
            runner.accept()
        except BaseException as err:  # noqa
            outcome["err"] = err
        else:
            outcome["err"] = None

    t = threading.Thread(target=run, daemon=True)
    t.start()
    t.join(timeout=5)
    alive = t.is_alive()
    if alive:
        runner.shutdown()
        t.join(timeout=5)
    assert not alive, "the runtime kept running after a payload raised %s" % exc_type.__name__
    assert isinstance(outcome["err"], RuntimeError)
    assert any(isinstance(c, exc_type) for c in _causes(outcome["err"]))


@pytest.mark.parametrize("flavour_name", ["asyncio", "trio"])
def test_payload_whose_call_raises_stopiteration_ends_run(flavour_name):
    """calling the payload happens inside the monitor coroutine: a StopIteration it raises is caught as it is
    (completed by the second repair for the asyncio runner)"""
    import asyncio

    import trio

    flavour = {"asyncio": asyncio, "trio": trio}[flavour_name]
    runner = ServiceRunner(accept_delay=0.05)
    outcome = {}

    def payload():
        raise StopIteration("raised by the call itself")

    runner.adopt(payload, flavour=flavour)

    def run():
        try:
            runner.accept()
        except BaseException as err:  # noqa
            outcome["err"] = err
        else:
            outcome["err"] = None

    t = threading.Thread(target=run, daemon=True)
    t.start()
    t.join(timeout=5)
    alive = t.is_alive()
    if alive:
        runner.shutdown()
        t.join(timeout=5)
    assert not alive, "the runtime kept running after a payload raised StopIteration"
    assert isinstance(outcome["err"], RuntimeError)
    assert any(isinstance(c, StopIteration) for c in _causes(outcome["err"]))
