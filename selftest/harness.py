"""
E9 -- self-test of the checker: mutants must be reported, neutral variants must stay silent.

Runs on scratch copies of the *current* tree under a private temporary directory (removed in a
finally).  The result is written into the evidence; it never decides the exit code of a
registered command (only VERIF_SELFTEST_STRICT=1, used during development, does).
"""
import json
import os
import random
import shutil
import subprocess
import sys
import tempfile
from concurrent.futures import ThreadPoolExecutor

HERE = os.path.dirname(os.path.dirname(os.path.abspath(__file__)))


def make_scratch(repo, base):
    d = tempfile.mkdtemp(prefix="v", dir=base)
    shutil.copytree(os.path.join(repo, "src"), os.path.join(d, "src"), ignore=shutil.ignore_patterns("__pycache__", "*.pyc", "*.egg-info"))
    if os.path.exists(os.path.join(repo, "setup.py")):
        shutil.copy(os.path.join(repo, "setup.py"), d)
    return d


def apply_edits(root, edits):
    """edits: [(relative file, old, new)]; returns False if an anchor text is absent"""
    for rel, old, new in edits:
        p = os.path.join(root, rel)
        try:
            with open(p, encoding="utf-8") as f:
                s = f.read()
        except OSError:
            return False
        if s.count(old) != 1:
            return False
        with open(p, "w", encoding="utf-8") as f:
            f.write(s.replace(old, new))
    return True


def run_check(pid, root, evdir):
    env = dict(os.environ, VERIF_EVIDENCE_DIR=evdir, VERIF_NO_SELFTEST="1")
    env.pop("VERIF_VERBOSE", None)
    py = sys.executable
    r = subprocess.run([py, "-B", os.path.join(HERE, "sa", "main.py"), pid, "--repo", root], capture_output=True, text=True, env=env, timeout=300)
    return r.returncode, r.stdout + r.stderr


def seeded_entries(pid):
    """the independently produced changes kept under /verif/seeded: breaking ones must be reported, refactorings not"""
    out = []
    sdir = os.path.join(HERE, "seeded")
    for name in sorted(os.listdir(sdir)) if os.path.isdir(sdir) else []:
        d = os.path.join(sdir, name)
        patch = os.path.join(d, "patch.diff")
        if not name.startswith(pid + "-") or not os.path.exists(patch):
            continue
        kind = "neutral" if name.split("-")[1].startswith("N") else "mutant"
        try:
            with open(os.path.join(d, "meta.json")) as f:
                meta = json.load(f)
        except (OSError, ValueError):
            meta = {}
        if meta.get("static_reach") is False or meta.get("stale_after"):
            continue
        kind = meta.get("kind_override", kind)  # kept for the record: a breaking change no sound static rule decides (DESIGN.md 11.9)
        out.append({"id": "seed-" + name, "prop": pid, "rule": None, "kind": kind, "edits": [], "patch": patch})
    return out


def apply_patch(root, patch):
    r = subprocess.run(["git", "apply", "--whitespace=nowarn", patch], cwd=root, capture_output=True, text=True)
    return r.returncode == 0


def one(args):
    pid, repo, base, m = args
    root = make_scratch(repo, base)
    try:
        if m.get("patch"):
            if not apply_patch(root, m["patch"]):
                return m, "skipped", "patch no longer applies"
        elif not apply_edits(root, m["edits"]):
            return m, "skipped", "edit site no longer exists"
        # the variant must still compile
        for rel, _o, _n in m["edits"]:
            try:
                compile(open(os.path.join(root, rel)).read(), rel, "exec")
            except SyntaxError as e:
                return m, "skipped", "variant does not compile: %s" % e
        code, out = run_check(pid, root, os.path.join(root, "ev"))
        rules = sorted({ln.split("violated ", 1)[1].split(" ")[0] for ln in out.splitlines() if ln.strip().startswith("violated ")})
        return m, code, rules if code == 1 else out.strip().splitlines()[-3:]
    finally:
        shutil.rmtree(root, ignore_errors=True)


def run(pid, repo, seed, clean, only=None):
    from selftest import mutants

    if not clean:
        return {"skipped": "the tree itself is in violation / undecided; self-test needs a clean tree"}
    cat = [m for m in mutants.CATALOGUE + seeded_entries(pid) if m["prop"] == pid and (only is None or m["id"] in only)]
    random.Random(seed).shuffle(cat)
    base = tempfile.mkdtemp(prefix="cobald-selftest-")
    res = {"mutants": 0, "detected": 0, "neutral": 0, "silent": 0, "missed": [], "noisy": [], "skipped": [], "undecided_on_mutant": [], "detail": []}
    try:
        with ThreadPoolExecutor(max_workers=min(16, (os.cpu_count() or 2))) as ex:
            for m, code, info in ex.map(one, [(pid, repo, base, m) for m in cat]):
                if code == "skipped":
                    res["skipped"].append("%s: %s" % (m["id"], info))
                    continue
                if m["kind"] == "mutant":
                    res["mutants"] += 1
                    if code == 1:
                        res["detected"] += 1
                        want = m.get("rule")
                        res["detail"].append({"id": m["id"], "reported": info})
                        if want and want not in info:
                            res["detail"][-1]["note"] = "reported, but not by the expected rule %s" % want
                    elif code == 2:
                        res["undecided_on_mutant"].append(m["id"])
                        res["missed"].append(m["id"])
                    else:
                        res["missed"].append(m["id"])
                else:
                    res["neutral"] += 1
                    if code == 0:
                        res["silent"] += 1
                    else:
                        res["noisy"].append({"id": m["id"], "exit": code, "tail": info})
    finally:
        shutil.rmtree(base, ignore_errors=True)
    return res


if __name__ == "__main__":
    # development entry point: python selftest/harness.py C08 [mutant ids...]
    sys.path.insert(0, HERE)
    pid = sys.argv[1]
    out = run(pid, os.environ.get("VERIF_REPO", "/repo"), 0, True, only=set(sys.argv[2:]) or None)
    print(json.dumps(out, indent=1))
    sys.exit(1 if out.get("missed") or out.get("noisy") else 0)
