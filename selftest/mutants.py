"""
E9 catalogue: realistic breaking edits ("mutant": the property's check must report a VIOLATION) and
behaviour-preserving edits ("neutral": the check must stay at exit 0).  Edits are text replacements
against the current tree (an edit whose anchor text no longer exists is skipped and reported).
All mutants still compile; the sub-agent seeds under /verif/seeded are the *independent* test of the
checks, this catalogue is the regression suite written by the checker's author.
"""

R = "src/cobald/daemon/runners/"
C = "src/cobald/controller/"
D = "src/cobald/decorator/"
I = "src/cobald/interfaces/"
K = "src/cobald/composite/"
G = "src/cobald/daemon/"
M = "src/cobald/monitor/"

CATALOGUE = []


def m(id, prop, rule, *edits, kind="mutant"):
    CATALOGUE.append({"id": id, "prop": prop, "rule": rule, "kind": kind, "edits": [tuple(e) for e in edits]})


def n(id, prop, *edits):
    m(id, prop, None, *edits, kind="neutral")


# ------------------------------------------------------------------ reverting the eight repaired defects
m("revert-fix-C09", "C09", "O9.1", (C + "switch.py", "self.regulate(self.interval)", "self.regulate_demand(self.interval)"))
m("revert-fix-C14", "C14", "O14.4", (G + "core/config.py", "dependencies.setdefault(before, set()).add(plugin.section)", "dependencies[before].add(plugin.section)"))
m("revert-fix-C17-quote", "C17", "O17.2", (M + "format_line.py", '        "%s=%s" % (_escape_key(key), _escape_field(value))\n', '        ("%s=%s" % (_escape_key(key), _escape_field(value))).replace("\'", \'"\')\n'))
m("revert-fix-C17-coerce", "C17", "O17.3", (M + "format_line.py", "_escape_key(str(value))", "_escape_key(value)"))
m("revert-fix-C06", "C06", "O6.2", (D + "standardiser.py", "        return by_limits", "        return type(value)(by_limits)"))
m("revert-fix-C04-leaf", "C04", "O4.4", (C + "stepwise.py", "*args, __leaf__=False, **kwargs)", "*args, __leaf__=True, **kwargs)"))
m("revert-fix-C04-signature", "C04", "O4.3", (R + "service.py", "            __new_service__.__signature__ = signature.replace(", "            signature = signature.replace("))
m("revert-fix-C03", "C03", "O3.5", (R + "trio_runner.py", "except (trio.RunFinishedError, trio.Cancelled, trio.ClosedResourceError):", "except (trio.RunFinishedError, trio.Cancelled):"))

# ------------------------------------------------------------------ C01
m("c01-falsy-swallowed", "C01", "O1.2", (R + "asyncio_runner.py", "            if result is None:\n                return\n            failure = OrphanedReturn(payload, result)\n        self._tasks", "            if not result:\n                return\n            failure = OrphanedReturn(payload, result)\n        self._tasks"))
m("c01-thread-falsy", "C01", "O1.2", (R + "thread_runner.py", "            if result is None:", "            if not result:"))
m("c01-trio-truthy-only", "C01", "O1.2", (R + "trio_runner.py", "        if value is not None:", "        if value:"))
m("c01-orphan-loses-value", "C01", "O1.2", (R + "thread_runner.py", "OrphanedReturn(payload, result)", "OrphanedReturn(payload, None)"))
m("c01-unmonitored-task", "C01", "O1.1", (R + "asyncio_runner.py", "self.asyncio_loop.create_task(self._monitor_payload(payload))", "self.asyncio_loop.create_task(payload())"))
m("c01-unmonitored-thread", "C01", "O1.1", (R + "thread_runner.py", "target=self._monitor_payload, args=(payload,), daemon=True", "target=payload, daemon=True"))
m("c01-unmonitored-nursery", "C01", "O1.1", (R + "trio_runner.py", "nursery.start_soon(self._monitor_payload, task)", "nursery.start_soon(task)"))
m("c01-log-instead-of-signal", "C01", "O1.2", (R + "thread_runner.py", "        self.asyncio_loop.call_soon_threadsafe(self._set_failure, failure)", "        self._logger.error('payload failed: %s', failure)"))
m("c01-return-exceptions", "C01", "O1.5", (R + "meta_runner.py", "await asyncio.gather(*runner_tasks, self._unqueue_payloads())", "await asyncio.gather(*runner_tasks, self._unqueue_payloads(), return_exceptions=True)"))
m("c01-no-cause", "C01", "O1.6", (R + "meta_runner.py", 'raise RuntimeError("background task failed") from err', 'raise RuntimeError("background task failed") from None'))
m("c01-swallow-in-run", "C01", "O1.4", (R + "base_runner.py", '            self._logger.exception("runner aborted: %s", self)\n            raise\n', '            self._logger.exception("runner aborted: %s", self)\n'))
m("c01-supervisor-swallows", "C01", "O1.5", (R + "meta_runner.py", "            await asyncio.shield(self._aclose_runners(runner_tasks))\n            raise\n", "            await asyncio.shield(self._aclose_runners(runner_tasks))\n"))
m("c01-runner-type-missing", "C01", "O1.5", (R + "meta_runner.py", "runner_types = (TrioRunner, AsyncioRunner, ThreadRunner)", "runner_types = (TrioRunner, AsyncioRunner)"))
m("c01-service-unmonitored", "C01", "O1.8", (R + "service.py", "runner.register_payload(service.run, flavour=self.flavour)", "runner.run_payload(service.run, flavour=self.flavour)"))
m("c01-manage-swallows", "C01", "O1.3", (R + "thread_runner.py", "    async def manage_payloads(self):\n        await self._payload_failure\n", "    async def manage_payloads(self):\n        try:\n            await self._payload_failure\n        except Exception:\n            self._logger.exception('payload failure')\n"))
n("c01-n-inverted-none", "C01", (R + "thread_runner.py", "            if result is None:\n                return\n            failure = OrphanedReturn(payload, result)\n", "            if result is not None:\n                failure = OrphanedReturn(payload, result)\n            else:\n                return\n"))
n("c01-n-eq-none", "C01", (R + "trio_runner.py", "        if value is not None:", "        if value != None:"))
n("c01-n-helper", "C01", (R + "asyncio_runner.py", "        if not self._payload_failure.done():\n            if type(failure) is StopIteration:\n                # raised by calling ``payload`` itself; a Future refuses StopIteration:\n                # report it as the cause of a RuntimeError, as for a coroutine (PEP 479)\n                error = RuntimeError(\"payload raised StopIteration\")\n                error.__cause__ = failure\n                failure = error\n            self._payload_failure.set_exception(failure)\n\n    async def manage_payloads", "        self._fail(failure)\n\n    def _fail(self, failure):\n        if not self._payload_failure.done():\n            if type(failure) is StopIteration:\n                # raised by calling ``payload`` itself; a Future refuses StopIteration:\n                # report it as the cause of a RuntimeError, as for a coroutine (PEP 479)\n                error = RuntimeError(\"payload raised StopIteration\")\n                error.__cause__ = failure\n                failure = error\n            self._payload_failure.set_exception(failure)\n\n    async def manage_payloads"))

# ------------------------------------------------------------------ C02
m("c02-close-not-awaited", "C02", "O2.1", (R + "meta_runner.py", "            await asyncio.shield(self._aclose_runners(runner_tasks))\n            raise\n", "            asyncio.ensure_future(self._aclose_runners(runner_tasks))\n            raise\n"))
m("c02-kbi-no-close", "C02", "O2.1", (R + "meta_runner.py", "            # Just clean up...\n            await asyncio.shield(self._aclose_runners(runner_tasks))\n", "            # Just clean up...\n            pass\n"))
m("c02-while-to-if", "C02", "O2.3", (R + "asyncio_runner.py", "        while self._tasks:\n", "        if self._tasks:\n"))
m("c02-no-cancel-scope", "C02", "O2.4", (R + "trio_runner.py", "            nursery.cancel_scope.cancel()\n", "            pass\n"))
m("c02-daemon-false", "C02", "O2.5", (R + "thread_runner.py", "daemon=True", "daemon=False"))
m("c02-no-join-of-tasks", "C02", "O2.2", (R + "meta_runner.py", "        await asyncio.gather(*runner_tasks, return_exceptions=True)\n", "        pass\n"))
m("c02-remove-undone", "C02", "O2.3", (R + "asyncio_runner.py", "                else:\n                    task.cancel()\n", "                else:\n                    task.cancel()\n                    self._tasks.discard(task)\n"))
m("c02-cancel-not-reraised", "C02", "O2.4", (R + "trio_runner.py", "            await self.aclose()\n            raise\n", "            await self.aclose()\n"))
n("c02-n-inverted-done", "C02", (R + "asyncio_runner.py", "                if task.done():\n                    self._tasks.discard(task)\n                    # monitored tasks only propagate cancellation and KeyboardInterrupt\n                    # KeyboardInterrupt will abort the asyncio loop but mark the task\n                    # as exceptionally terminated – we explicitly fetch the exception\n                    # to mark it as retrieved/handled and avoid warnings.\n                    if not task.cancelled():\n                        task.exception()\n                else:\n                    task.cancel()\n", "                if not task.done():\n                    task.cancel()\n                else:\n                    self._tasks.discard(task)\n                    if not task.cancelled():\n                        task.exception()\n"))

# ------------------------------------------------------------------ C03
m("c03-constant-flavour", "C03", "O3.3", (R + "service.py", "        self._meta_runner.register_payload(payload, flavour=flavour)", "        self._meta_runner.register_payload(payload, flavour=threading)"))
m("c03-kwargs-dropped", "C03", "O3.3", (R + "service.py", "            payload = functools.partial(payload, *args, **kwargs)\n        self._meta_runner.register_payload", "            payload = functools.partial(payload, *args)\n        self._meta_runner.register_payload"))
m("c03-started-never-set", "C03", "O3.6", (R + "service.py", "            self._started = True\n", "            pass\n"))
m("c03-double-register", "C03", "O3.1", (R + "meta_runner.py", "                runner.register_payload(payload)\n", "                runner.register_payload(payload)\n                runner.register_payload(payload)\n"))
m("c03-queue-not-cleared", "C03", "O3.1", (R + "meta_runner.py", "            queue.clear()\n        self._runner_queues.clear()\n", "            pass\n"))
m("c03-adopt-returns", "C03", "O3.4", (R + "service.py", "        self._meta_runner.register_payload(payload, flavour=flavour)", "        return self._meta_runner.run_payload(payload, flavour=flavour)"))
m("c03-sweep-after-sleep", "C03", "O3.7", (R + "service.py", "                self._adopt_services()\n                await trio.sleep(delay)\n", "                await trio.sleep(delay)\n"))
m("c03-unit-not-stored", "C03", "O3.6", (R + "service.py", "            self.__service_unit__ = service_unit\n", "            pass\n"))
n("c03-n-closure", "C03", (R + "service.py", "        if args or kwargs:\n            payload = functools.partial(payload, *args, **kwargs)\n        self._meta_runner.register_payload", "        payload = functools.partial(payload, *args, **kwargs)\n        self._meta_runner.register_payload"))

# ------------------------------------------------------------------ C04
m("c04-swapped-curry", "C04", "O4.1", (I + "_partial.py", "self.ctor, *self.args, *args, __leaf__=self.leaf", "self.ctor, *args, *self.args, __leaf__=self.leaf"))
m("c04-construct-order", "C04", "O4.5", (I + "_partial.py", "return self.ctor(*args, *self.args, **kwargs, **self.kwargs)", "return self.ctor(*self.args, *args, **kwargs, **self.kwargs)"))
m("c04-dropped-reversed", "C04", "O4.7", (I + "_partial.py", "for owner in reversed(self.targets[:-1]):", "for owner in self.targets[:-1]:"))
m("c04-permuted-bind", "C04", "O4.6", (I + "_partial.py", "return PartialBind(self, other.parent, *other.targets)", "return PartialBind(other.parent, self, *other.targets)"))
m("c04-dropped-target", "C04", "O4.6", (I + "_partial.py", "return PartialBind(self.parent, *self.targets, other)", "return PartialBind(self.parent, other)"))
m("c04-no-placeholder", "C04", "O4.2", (I + "_partial.py", "            if not self.leaf:\n                args = None, *args\n", "            pass\n"))
m("c04-target-check-late", "C04", "O4.2", (I + "_partial.py", 'if "target" in kwargs or (args and isinstance(args[0], _pool.Pool)):', 'if False and "target" in kwargs:'))
m("c04-leaf-constructed-twice", "C04", "O4.8", (I + "_partial.py", "            if other.leaf:\n                return self >> other.__construct__()\n", "            if other.leaf:\n                other.__construct__()\n                return self >> other.__construct__()\n"))
m("c04-skip-check", "C04", "O4.1", (I + "_partial.py", "        self.leaf = __leaf__\n        self._check_signature()\n", "        self.leaf = __leaf__\n        if args:\n            self._check_signature()\n"))
n("c04-n-slice-reverse", "C04", (I + "_partial.py", "for owner in reversed(self.targets[:-1]):", "for owner in self.targets[-2::-1]:"))
n("c04-n-elif-to-if", "C04", (I + "_partial.py", "        elif isinstance(other, Partial):\n            if other.leaf:\n                return self >> other.__construct__()\n            return PartialBind(self, other)\n        else:\n            return self.__construct__(other)\n", "        if isinstance(other, Partial):\n            if other.leaf:\n                return self >> other.__construct__()\n            return PartialBind(self, other)\n        return self.__construct__(other)\n"))

# ------------------------------------------------------------------ C05
m("c05-star-less-sequence", "C05", "O5.1", (G + "config/yaml.py", "            return factory(*args)\n", "            return factory(args)\n"))
m("c05-deep-constant", "C05", "O5.1", (G + "config/yaml.py", "kwargs = loader.construct_mapping(node, deep=eager)", "kwargs = loader.construct_mapping(node, deep=False)"))
m("c05-target-dropped", "C05", "O5.3", (G + "core/config.py", 'item, where="%s[%s]" % (where, index), target=prev_item\n', 'item, where="%s[%s]" % (where, index)\n'))
m("c05-forward-iteration", "C05", "O5.3", (G + "core/config.py", "for index, item in reversed(list(enumerate(pipeline))):", "for index, item in list(enumerate(pipeline)):"))
m("c05-link-to-item", "C05", "O5.3", (G + "core/config.py", "                        prev_item = item >> prev_item\n", "                        prev_item = prev_item >> item\n"))
m("c05-wide-try", "C05", "O5.4", (G + "core/config.py", "        try:\n            pipeline = structure[\"pipeline\"]\n        except (KeyError, TypeError):\n            return super().translate_hierarchy(\n                structure, where=where, **construct_kwargs\n            )\n        else:\n            prev_item, items = None, []\n", "        try:\n            pipeline = structure[\"pipeline\"]\n            pipeline = [self.translate_hierarchy(item) for item in pipeline]\n        except (KeyError, TypeError):\n            return super().translate_hierarchy(\n                structure, where=where, **construct_kwargs\n            )\n        else:\n            prev_item, items = None, []\n"))
m("c05-no-rereverse", "C05", "O5.3", (G + "core/config.py", "            return list(reversed(items))", "            return items"))
m("c05-factory-not-s", "C05", "O5.2", (G + "core/config.py", "            pipeline_factory = entry.load().s\n", "            pipeline_factory = entry.load().__call__\n"))
n("c05-n-slice", "C05", (G + "core/config.py", "            return list(reversed(items))", "            return items[::-1]"))

# ------------------------------------------------------------------ C06
m("c06-swapped-clamps", "C06", "O6.2", (D + "standardiser.py", "        by_supply = _clamp(supply - self.backlog, value, supply + self.surplus)\n        by_limits = _clamp(self.minimum, by_supply, self.maximum)\n        return by_limits", "        by_limits = _clamp(self.minimum, value, self.maximum)\n        by_supply = _clamp(supply - self.backlog, by_limits, supply + self.surplus)\n        return by_supply"))
m("c06-floor-after-clamp", "C06", "O6.2", (D + "standardiser.py", "self.target.demand = self._clamp_demand(_floor(value, self.granularity))", "self.target.demand = _floor(self._clamp_demand(value), self.granularity)"))
m("c06-clamp-lt-to-gt", "C06", "O6.1", (D + "standardiser.py", "    if value < low:\n        return low\n    elif value > high:\n        return high", "    if value < low:\n        return high\n    elif value > high:\n        return low"))
m("c06-round-not-floor", "C06", "O6.3", (D + "standardiser.py", "    return n // base * base", "    return round(n / base) * base"))
m("c06-resync-gt", "C06", "O6.4", (D + "standardiser.py", "if abs(self._demand - self.target.demand) >= self.granularity:", "if abs(self._demand - self.target.demand) > self.granularity:"))
m("c06-surplus-ge", "C06", "O6.5", (D + "standardiser.py", "enforce(surplus > 0,", "enforce(surplus >= 0,"))
m("c06-min-max-flipped", "C06", "O6.5", (D + "standardiser.py", "enforce(minimum <= maximum,", "enforce(minimum >= maximum,"))
m("c06-shortcut-wrong", "C06", "O6.6", (D + "standardiser.py", "        if self.granularity != 1:", "        if self.granularity > 1:"))
m("c06-backlog-surplus-swapped", "C06", "O6.2", (D + "standardiser.py", "_clamp(supply - self.backlog, value, supply + self.surplus)", "_clamp(supply - self.surplus, value, supply + self.backlog)"))
n("c06-n-clamp-le", "C06", (D + "standardiser.py", "    if value < low:\n        return low\n    elif value > high:\n        return high", "    if value <= low:\n        return low\n    elif value >= high:\n        return high"))
n("c06-n-flipped-operands", "C06", (D + "standardiser.py", "    if value < low:", "    if low > value:"))
n("c06-n-minmax", "C06", (D + "standardiser.py", "    return n // base * base", "    return n - n % base"))

# ------------------------------------------------------------------ C07
m("c07-copy-paste-attr", "C07", "O7.4", (K + "uniform.py", "return sum(child.allocation for child in self.children) / len(self.children)", "return sum(child.utilisation for child in self.children) / len(self.children)"))
m("c07-weight-mismatch", "C07", "O7.3", (K + "weighted.py", "pool.demand = value * getattr(pool, self._weight) / self._total_weight", "pool.demand = value * pool.supply / self._total_weight"))
m("c07-fallback-constant", "C07", "O7.5", (K + "uniform.py", "        except ZeroDivisionError:\n            return 1.0\n\n    @property\n    def allocation", "        except ZeroDivisionError:\n            return 0.0\n\n    @property\n    def allocation"))
m("c07-undefined-flipped", "C07", "O7.5", (K + "weighted.py", "return 0.0 if self.supply > 0 else 1.0", "return 1.0 if self.supply > 0 else 0.0"))
m("c07-setter-modifies", "C07", "O7.1", (K + "weighted.py", "        self._demand = value\n        child_count", "        self._demand = max(value, 0)\n        child_count"))
m("c07-filtered-domain", "C07", "O7.2", (K + "weighted.py", "        return sum(child.supply for child in self.children)\n\n    @property\n    def utilisation", "        return sum(child.supply for child in self.children if child.demand > 0)\n\n    @property\n    def utilisation"))
m("c07-weight-unvalidated", "C07", "O7.6", (K + "weighted.py", "        assert weight in (\n            \"supply\",\n            \"utilisation\",\n            \"allocation\",\n        ), \"weight must be either supply, utilisation or allocation\"\n", ""))
n("c07-n-commuted", "C07", (K + "weighted.py", "pool.demand = value * getattr(pool, self._weight) / self._total_weight", "pool.demand = getattr(pool, self._weight) * value / self._total_weight"))

# ------------------------------------------------------------------ C08
m("c08-lt-to-le", "C08", "O8.1", (C + "linear.py", "if self.target.utilisation < self.low_utilisation:", "if self.target.utilisation <= self.low_utilisation:"))
m("c08-gt-to-ge", "C08", "O8.1", (C + "linear.py", "elif self.target.allocation > self.high_allocation:", "elif self.target.allocation >= self.high_allocation:"))
m("c08-rate-without-interval", "C08", "O8.1", (C + "linear.py", "self.target.demand += interval * self.rate", "self.target.demand += self.rate"))
m("c08-relative-scales-swapped", "C08", "O8.2", (C + "relative_supply.py", "            self.target.demand = self.target.supply * self.low_scale\n", "            self.target.demand = self.target.supply * self.high_scale\n"))
m("c08-relative-else-dropped", "C08", "O8.2", (C + "relative_supply.py", "        else:\n            self.target.demand = self.target.supply\n", ""))
m("c08-range-closed", "C08", "O8.4", (C + "stepwise.py", "if low <= supply < high:", "if low <= supply <= high:"))
m("c08-range-open", "C08", "O8.4", (C + "stepwise.py", "if low <= supply < high:", "if low < supply < high:"))
m("c08-stepwise-truthy", "C08", "O8.4", (C + "stepwise.py", "            if demand is not None:\n                self.target.demand = demand", "            if demand:\n                self.target.demand = demand"))
m("c08-switch-break", "C08", "O8.5", (C + "switch.py", "            if demand <= self.target.demand:\n                chosen = slave\n", "            if demand <= self.target.demand:\n                chosen = slave\n                break\n"))
m("c08-switch-lt", "C08", "O8.5", (C + "switch.py", "            if demand <= self.target.demand:", "            if demand < self.target.demand:"))
m("c08-assert-flipped", "C08", "O8.3", (C + "relative_supply.py", "        assert low_scale < 1\n", "        assert low_scale <= 1\n"))
n("c08-n-elif-to-if", "C08", (C + "linear.py", "        elif self.target.allocation > self.high_allocation:", "        if self.target.allocation > self.high_allocation:"))
n("c08-n-flipped", "C08", (C + "linear.py", "if self.target.utilisation < self.low_utilisation:", "if self.low_utilisation > self.target.utilisation:"))
n("c08-n-commuted-step", "C08", (C + "linear.py", "self.target.demand -= interval * self.rate", "self.target.demand -= self.rate * interval"))

# ------------------------------------------------------------------ C09
m("c09-single-pass", "C09", "O9.2", (C + "linear.py", "        while True:\n            self.regulate(self.interval)\n            await trio.sleep(self.interval)", "        self.regulate(self.interval)\n        await trio.sleep(self.interval)"))
m("c09-missing-sleep", "C09", "O9.2", (C + "relative_supply.py", "            self.regulate(self.interval)\n            await trio.sleep(self.interval)", "            self.regulate(self.interval)\n            await trio.sleep(0)"))
m("c09-sleep-first", "C09", "O9.2", (C + "linear.py", "            self.regulate(self.interval)\n            await trio.sleep(self.interval)", "            await trio.sleep(self.interval)\n            self.regulate(self.interval)"))
m("c09-wrong-period", "C09", "O9.3", (C + "linear.py", "            await trio.sleep(self.interval)", "            await trio.sleep(self.rate)"))
m("c09-buffer-eager", "C09", "O9.4", (D + "buffer.py", "    demand = 0.0\n", "    pass\n"), (D + "buffer.py", "        self.demand = target.demand\n", "        pass\n"))
m("c09-factory-inverted", "C09", "O9.5", (K + "factory.py", "            if supply > demand:\n                self._shrink(target=demand)\n            else:\n                self._grow(target=demand)", "            if supply < demand:\n                self._shrink(target=demand)\n            else:\n                self._grow(target=demand)"))
m("c09-loop-break", "C09", "O9.2", (C + "stepwise.py", "            if demand is not None:\n                self.target.demand = demand\n            await trio.sleep(interval)", "            if demand is not None:\n                self.target.demand = demand\n            else:\n                break\n            await trio.sleep(interval)"))
n("c09-n-local-interval", "C09", (C + "linear.py", "        while True:\n            self.regulate(self.interval)\n            await trio.sleep(self.interval)", "        interval = self.interval\n        while True:\n            self.regulate(interval)\n            await trio.sleep(interval)"))

# ------------------------------------------------------------------ C10
m("c10-private-trio-run", "C10", "O10.4", (R + "trio_runner.py", "        return trio.from_thread.run(payload, trio_token=self._trio_token)", "        return trio.run(payload)"))
m("c10-result-wrapped", "C10", "O10.1", (R + "asyncio_runner.py", "        return future.result()", "        return [future.result()]"))
m("c10-swallow", "C10", "O10.2", (R + "thread_runner.py", "        return payload()\n", "        try:\n            return payload()\n        except Exception as err:\n            self._logger.exception('payload failed')\n            return err\n"))
m("c10-through-monitor", "C10", "O10.3", (R + "thread_runner.py", "        return payload()\n", "        return self._monitor_payload(payload)\n"))
m("c10-no-token", "C10", "O10.5", (R + "trio_runner.py", "return trio.from_thread.run(payload, trio_token=self._trio_token)", "return trio.from_thread.run(payload)"))
m("c10-other-loop", "C10", "O10.5", (R + "asyncio_runner.py", "asyncio.run_coroutine_threadsafe(payload(), self.asyncio_loop)", "asyncio.run_coroutine_threadsafe(payload(), asyncio.get_event_loop())"))

# ------------------------------------------------------------------ C11
m("c11-private-loop", "C11", "O11.1", (R + "asyncio_runner.py", "        future = asyncio.run_coroutine_threadsafe(payload(), self.asyncio_loop)\n        # ``result`` tests the stored exception for truth: raise it ourselves, so that\n        # an exception that is false (it defines ``__len__`` or ``__bool__``) is not lost\n        exception = future.exception()\n        if exception is not None:\n            raise exception\n        return future.result()", "        return asyncio.new_event_loop().run_until_complete(payload())"))
m("c11-asyncio-run", "C11", "O11.1", (R + "asyncio_runner.py", "        future = asyncio.run_coroutine_threadsafe(payload(), self.asyncio_loop)\n        # ``result`` tests the stored exception for truth: raise it ourselves, so that\n        # an exception that is false (it defines ``__len__`` or ``__bool__``) is not lost\n        exception = future.exception()\n        if exception is not None:\n            raise exception\n        return future.result()", "        return asyncio.run(payload())"))
m("c11-thread-in-loop", "C11", "O11.4", (R + "thread_runner.py", "        thread = threading.Thread(\n            target=self._monitor_payload, args=(payload,), daemon=True\n        )\n        thread.start()", "        self.asyncio_loop.call_soon_threadsafe(self._monitor_payload, payload)"))

# ------------------------------------------------------------------ C12
m("c12-release-in-else", "C12", "O12.1", (R + "guard.py", "                try:\n                    return fnc(*args, **kwargs)\n                finally:\n                    fnc_guard.release()", "                result = fnc(*args, **kwargs)\n                fnc_guard.release()\n                return result"))
m("c12-blocking-acquire", "C12", "O12.1", (R + "guard.py", "if fnc_guard.acquire(blocking=False):", "if fnc_guard.acquire():"))
m("c12-lock-per-call", "C12", "O12.1", (R + "guard.py", "        fnc_guard = via()\n\n        @functools.wraps(fnc)\n        def exclusive_call(*args, **kwargs):\n", "        @functools.wraps(fnc)\n        def exclusive_call(*args, **kwargs):\n            fnc_guard = via()\n"))
m("c12-set-out-of-finally", "C12", "O12.2", (R + "service.py", "        finally:\n            self.running.clear()\n            self._is_shutdown.set()\n", "        self.running.clear()\n        self._is_shutdown.set()\n"))
m("c12-wait-before-flag", "C12", "O12.3", (R + "service.py", "        self._must_shutdown = True\n        self._is_shutdown.wait()\n", "        self._is_shutdown.wait()\n        self._must_shutdown = True\n"))
m("c12-no-reset", "C12", "O12.4", (R + "service.py", "        self._must_shutdown = False\n        self._logger.info(\"%s starting\"", "        self._logger.info(\"%s starting\""))
m("c12-unbounded-delay", "C12", "O12.3", (R + "service.py", "                delay = min(delay + increase, max_delay)", "                delay = delay * 2 + increase"))
m("c12-running-before-clear", "C12", "O12.2", (R + "service.py", "        self._is_shutdown.clear()\n        self.running.set()\n", "        self.running.set()\n        self._is_shutdown.clear()\n"))

# ------------------------------------------------------------------ C13
m("c13-park-outside-with", "C13", "O13.2", (G + "core/main.py", "    with load(path):\n        # sleep indefinitely to wait until the runtime is aborted\n        await asyncio.sleep(float(\"inf\"))", "    with load(path):\n        pass\n    # sleep indefinitely to wait until the runtime is aborted\n    await asyncio.sleep(float(\"inf\"))"))
m("c13-flavour-trio", "C13", "O13.1", (G + "core/main.py", "runtime.adopt(_load_services, configuration, flavour=asyncio)", "runtime.adopt(_load_services, configuration, flavour=threading)"), (G + "core/main.py", "import asyncio\nimport sys", "import asyncio\nimport threading\nimport sys"))
m("c13-unknown-ext-python", "C13", "O13.3", (G + "core/config.py", '    elif os.path.splitext(config_path)[1] == ".py":\n        c = load_python_configuration(config_path)\n    else:\n        raise ValueError(\n            "Unknown configuration extension: %r" % os.path.splitext(config_path)[1]\n        )', "    else:\n        c = load_python_configuration(config_path)"))
m("c13-yield-none", "C13", "O13.2", (G + "core/config.py", "    yield c\n", "    del c\n    yield None\n"))
m("c13-yaml-drops-result", "C13", "O13.2", (G + "config/yaml.py", "    return load_mapping_configuration(config_data=config_data, plugins=plugins)", "    load_mapping_configuration(config_data=config_data, plugins=plugins)\n    return config_data"))
m("c13-adopt-after-accept", "C13", "O13.1", (G + "core/main.py", "    runtime.adopt(_load_services, configuration, flavour=asyncio)\n    runtime.accept()", "    runtime.accept()\n    runtime.adopt(_load_services, configuration, flavour=asyncio)"))

# ------------------------------------------------------------------ C14
m("c14-check-after-loop", "C14", "O14.1", (G + "config/mapping.py", "    unmatched = config_data.keys() - {plugin.section for plugin in plugins}\n    if unmatched:\n        raise ConfigurationError(\n            where=\"root\", what=\"unknown config sections %s\" % \", \".join(unmatched)\n        )\n    content = {}\n", "    content = {}\n"), (G + "config/mapping.py", "    return content\n", "    unmatched = config_data.keys() - {plugin.section for plugin in plugins}\n    if unmatched:\n        raise ConfigurationError(\n            where=\"root\", what=\"unknown config sections %s\" % \", \".join(unmatched)\n        )\n    return content\n"))
m("c14-if-content", "C14", "O14.2", (G + "config/mapping.py", "            if plugin_content is not None:", "            if plugin_content:"))
m("c14-swapped-orientation", "C14", "O14.3", (G + "core/config.py", "        plugin.section: set(plugin.after) for plugin in plugins.values()", "        plugin.section: set(plugin.before) for plugin in plugins.values()"))
m("c14-result-dropped", "C14", "O14.2", (G + "config/mapping.py", "                content[plugin] = plugin_content\n", "                pass\n"))
m("c14-required-ignored", "C14", "O14.2", (G + "config/mapping.py", "            if plugin.required:\n                raise ConfigurationError(\n                    where=\"root\", what=\"missing section %r\" % plugin.section\n                ) from None\n", "            pass\n"))
m("c14-digest-in-try", "C14", "O14.2", (G + "config/mapping.py", "            section_data = config_data[plugin.section]\n        except KeyError:", "            section_data = config_data[plugin.section]\n            plugin_content = plugin.digest(section_data)\n        except KeyError:"), (G + "config/mapping.py", "            plugin_content = plugin.digest(section_data)\n            if plugin_content is not None:", "            if plugin_content is not None:"))
m("c14-before-dropped-in-decorator", "C14", "O14.5", (G + "plugins.py", "required=required, before=frozenset(before), after=frozenset(after)", "required=required, before=frozenset(after), after=frozenset(after)"))
n("c14-n-guarded-lookup", "C14", (G + "core/config.py", "            dependencies.setdefault(before, set()).add(plugin.section)", "            if before in dependencies:\n                dependencies[before].add(plugin.section)"))

# ------------------------------------------------------------------ C15
m("c15-release-without-zero", "C15", "O15.2", (K + "factory.py", "        child.demand = 0\n        self._hatchery.discard(child)", "        self._hatchery.discard(child)"))
m("c15-discard-removed", "C15", "O15.2", (K + "factory.py", "        self._hatchery.discard(child)\n        self._mortuary.add(child)", "        self._mortuary.add(child)"))
m("c15-grow-ge", "C15", "O15.4", (K + "factory.py", "        while missing_demand > 0:", "        while missing_demand >= 0:"))
m("c15-shrink-lt", "C15", "O15.4", (K + "factory.py", "            if child.demand <= excess_demand:", "            if child.demand < excess_demand:"))
m("c15-no-reap-after-grow", "C15", "O15.3", (K + "factory.py", "            missing_demand -= new_child.demand\n        self._reap_children()", "            missing_demand -= new_child.demand"))
m("c15-revive", "C15", "O15.1", (K + "factory.py", "        missing_demand = target - sum(child.demand for child in self.children)\n", "        missing_demand = target - sum(child.demand for child in self.children)\n        for child in list(self._mortuary):\n            self._hatchery.add(child)\n"))
m("c15-reap-lt", "C15", "O15.3", (K + "factory.py", "            if child.demand <= 0:\n                self._release_child(child)", "            if child.demand < 0:\n                self._release_child(child)"))
m("c15-count-all", "C15", "O15.5", (K + "factory.py", "            return sum(child.utilisation for child in active_children) / len(\n                active_children\n            )", "            return sum(child.utilisation for child in active_children) / len(\n                self.children\n            )"))

# ------------------------------------------------------------------ C16
m("c16-forward-wrong-attr", "C16", "O16.1", (I + "_proxy.py", "        return self.target.utilisation", "        return self.target.allocation"))
m("c16-log-after-write", "C16", "O16.3", (D + "logger.py", "                \"target\": self.target,\n            },\n        )\n        self.target.demand = value", "                \"target\": self.target,\n            },\n        )"), (D + "logger.py", "    def demand(self, value):\n        self._logger.log(", "    def demand(self, value):\n        self.target.demand = value\n        self._logger.log("))
m("c16-key-mismatch", "C16", "O16.4", (D + "logger.py", "    consumption=_WarnValue(", "    usage=_WarnValue("))
m("c16-field-wrong", "C16", "O16.3", (D + "logger.py", '"supply": self.target.supply,', '"supply": self.target.demand,'))
m("c16-override-supply", "C16", "O16.2", (D + "buffer.py", "    demand = 0.0\n", "    demand = 0.0\n    supply = 0.0\n"))
m("c16-keyerror-swallowed", "C16", "O16.5", (D + "logger.py", "            raise RuntimeError(\n                f\"invalid {type(self).__name__} message field: {e}\"\n            ) from None", "            warnings.warn(f\"invalid message field: {e}\")"))
m("c16-level-constant", "C16", "O16.3", (D + "logger.py", "            self.level,\n            self.message,", "            logging.INFO,\n            self.message,"))

# ------------------------------------------------------------------ C17
m("c17-removed-escape", "C17", "O17.1", (M + "format_line.py", 'return key.replace(r",", r"\\,").replace(r"=", r"\\=").replace(r" ", r"\\ ")', 'return key.replace(r",", r"\\,").replace(r" ", r"\\ ")'))
m("c17-swapped-escape-order", "C17", "O17.1", (M + "format_line.py", "field.replace(\"\\\\\", r\"\\\\\").replace('\"', r\"\\\"\")", "field.replace('\"', r\"\\\"\").replace(\"\\\\\", r\"\\\\\")"))
m("c17-json-order", "C17", "O17.6", (M + "format_json.py", "        data[\"message\"] = record.getMessage() if args else record.msg\n        data.update(args)", "        data.update(args)\n        data[\"message\"] = record.getMessage() if args else record.msg"))
m("c17-no-floor", "C17", "O17.4", (M + "format_line.py", "record.created // self._resolution * self._resolution", "record.created"))
m("c17-ms-not-ns", "C17", "O17.4", (M + "format_line.py", '" %d" % (timestamp * 1e9)', '" %d" % (timestamp * 1e6)'))
m("c17-defaults-override", "C17", "O17.5", (M + "format_line.py", "        tags = self._default_tags.copy()\n        tags.update(\n            {key: value for key, value in args.items() if key in self._tags_whitelist}\n        )", "        tags = {key: value for key, value in args.items() if key in self._tags_whitelist}\n        tags.update(self._default_tags)"))
m("c17-no-newline", "C17", "O17.4", (M + "format_line.py", '    return output_str + "\\n"', "    return output_str"))
n("c17-n-fstring", "C17", (M + "format_line.py", '"%s=%s" % (_escape_key(key), _escape_key(str(value)))', 'f"{_escape_key(key)}={_escape_key(str(value))}"'))

# ------------------------------------------------------------------ C18
m("c18-base-loader", "C18", "O18.1", (G + "core/config.py", "class COBalDLoader(SafeLoader):", "class COBalDLoader(BaseLoader):"))
m("c18-unsafe-load", "C18", "O18.3", (G + "config/yaml.py", "        loader_instance = loader(yaml_stream)\n        try:\n            config_data = loader_instance.get_single_data()\n        finally:\n            loader_instance.dispose()\n", "        import yaml\n\n        config_data = yaml.unsafe_load(yaml_stream)\n"))
m("c18-loader-not-passed", "C18", "O18.2", (G + "core/config.py", "            loader=COBalDLoader,  # type: ignore\n", ""))
n("c18-catch-all-tag-now-harmless", "C18", (G + "core/config.py", '            tag="!" + entry.name,', "            tag=None,"))

# ------------------------------------------------------------------ C19
m("c19-enumerate-reversed", "C19", "O19.2", (G + "config/mapping.py", "for index, item in reversed(list(enumerate(structure)))", "for index, item in enumerate(reversed(structure))"))
m("c19-always-rewrap", "C19", "O19.4", (G + "config/mapping.py", "            if err.where is None:\n                raise ConfigurationError(what=err.what, where=where) from err\n            raise", "            raise ConfigurationError(what=err.what, where=where) from err"))
m("c19-where-dropped", "C19", "O19.3", (G + "config/mapping.py", 'key: self.translate_hierarchy(value, where="%s.%s" % (where, key))', "key: self.translate_hierarchy(value, where=where)"))
m("c19-generic-first", "C19", "O19.4", (G + "config/mapping.py", "        except ConfigurationError as err:\n            if err.where is None:\n                raise ConfigurationError(what=err.what, where=where) from err\n            raise\n        except Exception as err:\n            raise ConfigurationError(where=where, what=err) from err", "        except Exception as err:\n            raise ConfigurationError(where=where, what=err) from err"))
m("c19-args-not-popped", "C19", "O19.5", (G + "config/mapping.py", '        args = mapping.pop("__args__", [])', '        args = mapping.get("__args__", [])'))
m("c19-construct-before-children", "C19", "O19.1", (G + "config/mapping.py", '                if "__type__" in structure:\n                    return self.construct(structure, **construct_kwargs)\n                return structure', '                return structure'), (G + "config/mapping.py", "            if isinstance(structure, dict):\n", '            if isinstance(structure, dict):\n                if "__type__" in structure:\n                    return self.construct(structure, **construct_kwargs)\n'))
n("c19-n-fstring", "C19", (G + "config/mapping.py", 'item, where="%s[%s]" % (where, index)\n                            )\n                            for index, item in reversed(list(enumerate(structure)))', 'item, where=f"{where}[{index}]"\n                            )\n                            for index, item in reversed(list(enumerate(structure)))'))

# ------------------------------------------------------------------ further behaviour-preserving idioms (must stay silent)
n("c14-n-in-guard", "C14", (G + "config/mapping.py", """        try:
            section_data = config_data[plugin.section]
        except KeyError:
            if plugin.required:
                raise ConfigurationError(
                    where="root", what="missing section %r" % plugin.section
                ) from None
        else:
            # invoke the plugin and store possible output
            # to avoid it being garbage collected
            plugin_content = plugin.digest(section_data)
            if plugin_content is not None:
                content[plugin] = plugin_content""", """        if plugin.section not in config_data:
            if plugin.required:
                raise ConfigurationError(
                    where="root", what="missing section %r" % plugin.section
                )
            continue
        plugin_content = plugin.digest(config_data[plugin.section])
        if plugin_content is not None:
            content[plugin] = plugin_content"""))
n("c14-n-pop-default", "C14", (G + "config/mapping.py", """    try:
        logging_mapping = config_data.pop("logging")
    except KeyError:
        pass
    else:
        configure_logging(logging_mapping)""", """    logging_mapping = config_data.pop("logging", None)
    if logging_mapping is not None:
        configure_logging(logging_mapping)"""))
n("c12-n-acquired-local", "C12", (R + "guard.py", """            if fnc_guard.acquire(blocking=False):
                try:
                    return fnc(*args, **kwargs)
                finally:
                    fnc_guard.release()
            else:
                raise RuntimeError("exclusive call to %s violated")""", """            acquired = fnc_guard.acquire(blocking=False)
            if not acquired:
                raise RuntimeError("exclusive call to %s violated")
            try:
                return fnc(*args, **kwargs)
            finally:
                fnc_guard.release()"""))
n("c16-n-fields-local", "C16", (D + "logger.py", """        self._logger.log(
            self.level,
            self.message,
            {""", """        fields = {"""), (D + "logger.py", """                "target": self.target,
            },
        )
        self.target.demand = value""", """                "target": self.target,
        }
        self._logger.log(self.level, self.message, fields)
        self.target.demand = value"""))
n("c15-n-early-continue", "C15", (K + "factory.py", """            if child.demand <= excess_demand:
                excess_demand -= child.demand
                self._release_child(child)""", """            if child.demand > excess_demand:
                continue
            excess_demand -= child.demand
            self._release_child(child)"""))
n("c13-n-ext-local", "C13", (G + "core/config.py", """    if os.path.splitext(config_path)[1] in (".yaml", ".yml"):""", """    extension = os.path.splitext(config_path)[1]
    if extension in (".yaml", ".yml"):"""), (G + "core/config.py", """    elif os.path.splitext(config_path)[1] == ".py":""", """    elif extension == ".py":"""))
n("c19-n-early-return", "C19", (G + "config/mapping.py", """                if "__type__" in structure:
                    return self.construct(structure, **construct_kwargs)
                return structure""", """                if "__type__" not in structure:
                    return structure
                return self.construct(structure, **construct_kwargs)"""))
n("c18-n-keyword-order", "C18", (G + "core/config.py", """        loader.add_constructor(
            tag="!" + entry.name,
            constructor=yaml_constructor(pipeline_factory, eager=settings.eager),
        )""", """        constructor = yaml_constructor(pipeline_factory, eager=settings.eager)
        loader.add_constructor(constructor=constructor, tag="!" + entry.name)"""))
n("c11-n-local-loop", "C11", (R + "asyncio_runner.py", """        future = asyncio.run_coroutine_threadsafe(payload(), self.asyncio_loop)
""", """        loop = self.asyncio_loop
        future = asyncio.run_coroutine_threadsafe(payload(), loop)
"""))
n("c10-n-local-loop", "C10", (R + "asyncio_runner.py", """        future = asyncio.run_coroutine_threadsafe(payload(), self.asyncio_loop)
""", """        loop = self.asyncio_loop
        future = asyncio.run_coroutine_threadsafe(payload(), loop)
"""))
n("c17-n-helper-name", "C17", (M + "format_line.py", """    output_str = name.replace(r",", r"\\,").replace(r" ", r"\\ ")""", """    output_str = _escape_name(name)"""), (M + "format_line.py", """def escape_field(field: T) -> T:""", """def _escape_name(name: str) -> str:
    return name.replace(r",", r"\\,").replace(r" ", r"\\ ")


def escape_field(field: T) -> T:"""))

m("c01-trio-run-swallows", "C01", "O1.3", (R + "trio_runner.py", "        return trio.run(self._manage_payloads_trio)", """        try:
            return trio.run(self._manage_payloads_trio)
        except Exception:
            self._logger.exception("trio runner failed")"""))
m("c01-nursery-swallows", "C01", "O1.3", (R + "trio_runner.py", """        async with trio.open_nursery() as nursery:
            async for task in receive_tasks:
                nursery.start_soon(self._monitor_payload, task)
            # shutting down: cancel the scope to cancel all payloads
            nursery.cancel_scope.cancel()""", """        try:
            async with trio.open_nursery() as nursery:
                async for task in receive_tasks:
                    nursery.start_soon(self._monitor_payload, task)
                # shutting down: cancel the scope to cancel all payloads
                nursery.cancel_scope.cancel()
        except Exception as err:
            self._logger.error("payload failed: %s", err)"""))

m("c08-rules-sorted-reverse", "C08", "O8.4", (C + "stepwise.py", "thresholds, _rules = zip(*sorted(rules))", "thresholds, _rules = zip(*sorted(rules, reverse=True))"))
m("c08-slaves-sorted-reverse", "C08", "O8.5", (C + "switch.py", "self._slaves = tuple(sorted(pairwise(slaves)))", "self._slaves = tuple(sorted(pairwise(slaves), reverse=True))"))
m("c14-result-unfiltered", "C14", "O14.4", (G + "core/config.py", "        for plugin_name in toposort_flatten(dependencies, sort=False)\n        if plugin_name in plugins\n", "        for plugin_name in toposort_flatten(dependencies, sort=False)\n"))
m("c03-flush-skips-flavours", "C03", "O3.1", (R + "meta_runner.py", "        for flavour, queue in self._runner_queues.items():\n            self.register_payload(*queue, flavour=flavour)", "        for flavour, queue in self._runner_queues.items():\n            if flavour not in self._runners:\n                continue\n            self.register_payload(*queue, flavour=flavour)"))
m("c03-queue-overwritten", "C03", "O3.1", (R + "meta_runner.py", "self._runner_queues.setdefault(flavour, []).extend(payloads)", "self._runner_queues[flavour] = list(payloads)"))

m("c12-aclose-no-wake", "C12", "O12.6", (R + "thread_runner.py", "        if not self._payload_failure.done():\n            self._payload_failure.set_result(None)", "        pass"))
m("c02-aclose-no-wake", "C02", "O2.7", (R + "thread_runner.py", "        if not self._payload_failure.done():\n            self._payload_failure.set_result(None)", "        pass"))
m("c09-not-a-service", "C09", "O9.0", (D + "buffer.py", "@service(flavour=trio)\n", ""))
m("c09-flavour-mismatch", "C09", "O9.0", (C + "linear.py", "@service(flavour=trio)", "@service(flavour=asyncio)"), (C + "linear.py", "import trio\n", "import trio\nimport asyncio\n"))
m("c17-add-time-bool", "C17", "O17.7", (M + "format_json.py", "self._add_time = self.datefmt or self.datefmt is None", "self._add_time = bool(self.datefmt)"))
m("c17-whitelist-mapping-only", "C17", "O17.5", (M + "format_line.py", "self._tags_whitelist = set(tags) if tags is not None else set()", "self._tags_whitelist = set(tags) if isinstance(tags, Mapping) else set()"))

# ------------------------------------------------------------------ from the mutation-sweep triage (test-passing mutants no check reported)
m("c02-join-first-exception", "C02", "O2.2", (R + "meta_runner.py", "return_exceptions=True", "return_exceptions=False"))
m("c12-stopped-not-set", "C12", "O2.6", (R + "base_runner.py", "        finally:\n            self._stopped.set()", "        finally:\n            pass"))
m("c12-stopped-set-out-of-finally", "C12", "O2.6", (R + "base_runner.py", "        finally:\n            self._stopped.set()", "        self._stopped.set()"))
n("c12-n-stopped-set-helper", "C12", (R + "base_runner.py", "        finally:\n            self._stopped.set()", "        finally:\n            self._mark_stopped()\n\n    def _mark_stopped(self):\n        self._stopped.set()"))
m("c15-spawn-not-added", "C15", "O15.4", (K + "factory.py", "            self._hatchery.add(new_child)\n", "            pass\n"))
m("c15-reap-releases-nothing", "C15", "O15.3", (K + "factory.py", "            if child.demand <= 0:\n                self._release_child(child)", "            if child.demand <= 0:\n                pass"))
m("c15-supply-returns-none", "C15", "O15.5", (K + "factory.py", "        return sum(child.supply for child in self.children)", "        pass"))
m("c15-demand-write-dropped", "C15", "O15.6", (K + "factory.py", "        self._demand = value\n", "        pass\n"))
m("c15-demand-readback-none", "C15", "O15.6", (K + "factory.py", "        return self._demand\n", "        return None\n"))
m("c15-run-orientation", "C15", "O9.5", (K + "factory.py", "            if supply > demand:", "            if supply < demand:"))
m("c07-allocation-returns-none", "C07", "O7.4", (K + "uniform.py", "            return sum(child.allocation for child in self.children) / len(self.children)", "            pass"))
m("c07-demand-not-initialised", "C07", "O7.1", (K + "uniform.py", "        self._demand = sum(child.demand for child in children)", "        pass"))
m("c13-adopt-deleted", "C13", "O13.1", (G + "core/main.py", "    runtime.adopt(_load_services, configuration, flavour=asyncio)\n", ""))
m("c13-adopt-swapped", "C13", "O13.1", (G + "core/main.py", "runtime.adopt(_load_services, configuration, flavour=asyncio)", "runtime.adopt(configuration, _load_services, flavour=asyncio)"))
m("c13-logger-unbound", "C13", "O0.1", (G + "core/main.py", "    logger = logging.getLogger(__package__)\n", ""))
m("c13-options-unbound", "C13", "O0.1", (G + "core/main.py", "    options = CLI.parse_args()\n", ""))
m("c04-signature-guard-inverted", "C04", "O4.3", (R + "service.py", "if signature is not None:", "if signature is None:"))
m("c04-signature-unbound", "C04", "O0.1", (R + "service.py", "        except (TypeError, ValueError):\n            signature = None", "        except (TypeError, ValueError):\n            pass"))
m("c03-self-unbound", "C03", "O0.1", (R + "service.py", "                self = __new__(cls, *args, **kwargs)", "                pass"))
n("c12-n-shutdown-without-wait", "C12", (R + "service.py", "        self._is_shutdown.wait()\n", ""))
m("c08-table-not-returned", "C08", "O8.4", (C + "stepwise.py", "        return lookup\n", "        return None\n"))
m("c08-table-entry-dropped", "C08", "O8.4", (C + "stepwise.py", "            lookup[low, high] = rule\n", "            pass\n"))
m("c08-base-range-from-1", "C08", "O8.4", (C + "stepwise.py", 'return {(0, float("inf")): base}', 'return {(1, float("inf")): base}'))
m("c08-lower-bounds-from-1", "C08", "O8.4", (C + "stepwise.py", "            chain([0], thresholds),", "            chain([1], thresholds),"))
m("c08-bounds-swapped", "C08", "O8.4", (C + "stepwise.py", '            chain([0], thresholds),\n            chain(thresholds, [float("inf")]),', '            chain(thresholds, [float("inf")]),\n            chain([0], thresholds),'))
m("c08-table-not-stored", "C08", "O8.4", (C + "stepwise.py", "        self._lookup = self._compile_lookup(base, rules)", "        pass"))
m("c08-add-not-recorded", "C08", "O8.6", (C + "stepwise.py", "            self.rules.append((supply, rule))\n", ""))
m("c08-call-args-swapped", "C08", "O8.6", (C + "stepwise.py", "return Stepwise(target, self.base, *self.rules)", "return Stepwise(self.base, target, *self.rules)"))
m("c08-call-interval-inverted", "C08", "O8.6", (C + "stepwise.py", "        if interval is None:\n            return Stepwise", "        if interval is not None:\n            return Stepwise"))
m("c08-selector-without-rules", "C08", "O8.6", (C + "stepwise.py", "        self._selector = RangeSelector(base, *rules)", "        self._selector = RangeSelector(base)"))
m("c08-target-not-bound", "C08", "O8.6", (C + "stepwise.py", "        super().__init__(target)\n        self.interval = interval", "        self.interval = interval"))
n("c08-n-table-list-star", "C08", (C + "stepwise.py", '            chain([0], thresholds),\n            chain(thresholds, [float("inf")]),\n            chain([base], _rules),', '            [0, *thresholds],\n            [*thresholds, float("inf")],\n            [base, *_rules],'))
n("c08-n-call-kwargs", "C08", (C + "stepwise.py", "        if interval is None:\n            return Stepwise(target, self.base, *self.rules)\n        return Stepwise(target, self.base, *self.rules, interval=interval)", "        extra = {} if interval is None else {\"interval\": interval}\n        return Stepwise(target, self.base, *self.rules, **extra)"))
m("c14-required-default-true", "C14", "O14.5", (G + "plugins.py", "after: Iterable[str] = (), required: bool = False", "after: Iterable[str] = (), required: bool = True"))
m("c09-buffer-pending-not-initialised", "C09", "O9.4", (D + "buffer.py", "        self.demand = target.demand\n", ""))
m("c09-buffer-target-not-bound", "C09", "O9.4", (D + "buffer.py", "        super().__init__(target=target)\n", ""))
m("c17-line-empty-payload", "C17", "O17.8", (M + "format_line.py", "        if args == ({},):  # logger.info('message', {}) -> record.args == ({},)\n            args = {}", "        if args == ({},):  # logger.info('message', {}) -> record.args == ({},)\n            pass"))
m("c17-json-empty-payload", "C17", "O17.8", (M + "format_json.py", "        if args == ({},):  # logger.info('message', {}) -> record.args == ({},)\n            args = {}", "        if args == ({},):  # logger.info('message', {}) -> record.args == ({},)\n            pass"))
n("c17-n-empty-payload-ifexp", "C17", (M + "format_json.py", "        args = record.args\n        if args == ({},):  # logger.info('message', {}) -> record.args == ({},)\n            args = {}", "        args = {} if record.args == ({},) else record.args"))
n("c11-n-lock-short-section", "C11", (R + "meta_runner.py", "        self.running = threading.Event()\n", "        self.running = threading.Event()\n        self._table_lock = threading.Lock()\n"), (R + "meta_runner.py", "        return self._runners[flavour].run_payload(payload)", "        with self._table_lock:\n            runner = self._runners[flavour]\n        return runner.run_payload(payload)"), (R + "meta_runner.py", "        try:\n            runner = self._runners[flavour]\n        except KeyError:", "        try:\n            with self._table_lock:\n                runner = self._runners[flavour]\n        except KeyError:"))
m("c11-lock-across-execute", "C11", "O11.6", (R + "meta_runner.py", "        self.running = threading.Event()\n", "        self.running = threading.Event()\n        self._table_lock = threading.Lock()\n"), (R + "meta_runner.py", "        return self._runners[flavour].run_payload(payload)", "        with self._table_lock:\n            return self._runners[flavour].run_payload(payload)"), (R + "meta_runner.py", "        try:\n            runner = self._runners[flavour]\n        except KeyError:", "        try:\n            with self._table_lock:\n                runner = self._runners[flavour]\n        except KeyError:"))
m("revert-fix-C03-eager-format", "C03", "O3.4", (R + "trio_runner.py", '            self._logger.warning("discarding payload %s during shutdown", payload)\n            return', '            self._logger.warning(f"discarding payload {payload} during shutdown")\n            return'))

# a repair of the open finding O3.10 (register / launch race) must be silent everywhere -- also for O11.6 (the lock is never held across a wait)
_LOCKFIX = (
    (R + "meta_runner.py", "        self.running = threading.Event()\n", "        self.running = threading.Event()\n        self._registration_lock = threading.Lock()\n"),
    (
        R + "meta_runner.py",
        '        try:\n            runner = self._runners[flavour]\n        except KeyError:\n            if self.running.is_set():\n                raise RuntimeError(f"unknown runner {NameRepr(flavour)}") from None\n            self._runner_queues.setdefault(flavour, []).extend(payloads)\n        else:\n            for payload in payloads:\n                self._logger.debug(\n                    "registering payload %s (%s)", NameRepr(payload), NameRepr(flavour)\n                )\n                runner.register_payload(payload)\n',
        '        with self._registration_lock:\n            try:\n                runner = self._runners[flavour]\n            except KeyError:\n                if self.running.is_set():\n                    raise RuntimeError(f"unknown runner {NameRepr(flavour)}") from None\n                self._runner_queues.setdefault(flavour, []).extend(payloads)\n                return\n        for payload in payloads:\n            self._logger.debug(\n                "registering payload %s (%s)", NameRepr(payload), NameRepr(flavour)\n            )\n            runner.register_payload(payload)\n',
    ),
    (R + "meta_runner.py", "        runner_tasks = await self._launch_runners()\n        self.running.set()\n", "        runner_tasks = await self._launch_runners()\n        with self._registration_lock:\n            self.running.set()\n"),
    (
        R + "meta_runner.py",
        "        for flavour, queue in self._runner_queues.items():\n            self.register_payload(*queue, flavour=flavour)\n            queue.clear()\n        self._runner_queues.clear()\n",
        "        with self._registration_lock:\n            queues, self._runner_queues = self._runner_queues, {}\n        for flavour, queue in queues.items():\n            self.register_payload(*queue, flavour=flavour)\n",
    ),
)
for _p in ("C01", "C02", "C03", "C10", "C11", "C12", "C13"):
    n("%s-n-register-lock" % _p.lower(), _p, *_LOCKFIX)
# ... and holding that lock across the runner's blocking hop is what O11.6 exists for
m("c11-register-lock-across-hop", "C11", "O11.6", _LOCKFIX[0], (R + "meta_runner.py", "            for payload in payloads:\n                self._logger.debug(\n                    \"registering payload %s (%s)\", NameRepr(payload), NameRepr(flavour)\n                )\n                runner.register_payload(payload)\n", "            with self._registration_lock:\n                for payload in payloads:\n                    runner.register_payload(payload)\n"), (R + "meta_runner.py", "        return self._runners[flavour].run_payload(payload)", "        with self._registration_lock:\n            return self._runners[flavour].run_payload(payload)"))
m("revert-fix-C12-stale-runners", "C12", "O12.4", (R + "meta_runner.py", "            self.running.clear()\n            # all runners have ended: registrations for the next run are queued again\n            self._runners.clear()\n", "            self.running.clear()\n"))
m("revert-fix-C01-stale-runners", "C01", "O1.10", (R + "meta_runner.py", "            self.running.clear()\n            # all runners have ended: registrations for the next run are queued again\n            self._runners.clear()\n", "            self.running.clear()\n"))

# ------------------------------------------------------------------ from the second mutation sweep (HEAD 3b2c27f)
m("c03-sweep-failure-swallowed", "C03", "O3.7", (R + "service.py", '            self._logger.exception("%s aborted", self.__class__.__name__)\n            raise\n', '            self._logger.exception("%s aborted", self.__class__.__name__)\n'))
m("c03-queue-never-cleared", "C03", "O3.1", (R + "meta_runner.py", "            queue.clear()\n        self._runner_queues.clear()\n", "            pass\n"))
m("c05-tail-template-not-constructed", "C05", "O5.3", ("src/cobald/daemon/core/config.py", "                        prev_item = prev_item.__construct__()\n", "                        pass\n"))
m("c13-splitext-index", "C13", "O13.3", ("src/cobald/daemon/core/config.py", '    elif os.path.splitext(config_path)[1] == ".py":', '    elif os.path.splitext(config_path)[2] == ".py":'))
n("c18-merge-value-fix-reverted-now-harmless", "C18", ("src/cobald/daemon/core/config.py", '    def flatten_mapping(self, node):\n        # PyYAML splices the content of ``<<`` values into ``node`` without ever\n        # looking at their tags: reject here what is rejected at any other position\n        for key_node, value_node in node.value:\n            if key_node.tag == "tag:yaml.org,2002:merge":\n                # the value itself, and each of its elements if it is a list of mappings\n                merged = [value_node]\n                if isinstance(value_node, SequenceNode):\n                    merged = [value_node, *value_node.value]\n                for merged_node in merged:\n                    if merged_node.tag not in self.yaml_constructors:\n                        self.construct_undefined(merged_node)\n        super().flatten_mapping(node)\n', ""))
n("c18-merge-value-check-inverted-now-harmless", "C18", ("src/cobald/daemon/core/config.py", "                        self.construct_undefined(merged_node)\n", "                        pass\n"))
n("c18-merge-value-list-node-unchecked-now-harmless", "C18", ("src/cobald/daemon/core/config.py", "                    merged = [value_node, *value_node.value]\n", "                    merged = [*value_node.value]\n"))
n("c18-merge-value-elements-unchecked-now-harmless", "C18", ("src/cobald/daemon/core/config.py", "                    merged = [value_node, *value_node.value]\n", "                    pass\n"))
# ---- round 7: value domains, scopes and lifetimes
m("c15-hit-list-generator", "C15", "O0.6", ("src/cobald/composite/factory.py", "        hit_list = sorted(\n            self._hatchery, key=lambda child: child.supply * child.utilisation\n        )\n", "        hit_list = (child for child in sorted(\n            self._hatchery, key=lambda child: child.supply * child.utilisation\n        ))\n"))
m("c09-slave-table-late-binding", "C09", "O0.5", ("src/cobald/controller/switch.py", "        for _, slave in self._slaves:\n            slave.target = target\n        self.interval = interval\n", "        for _, slave in self._slaves:\n            slave.target = target\n        self._regulators = []\n        for _, slave in self._slaves:\n            self._regulators.append(lambda interval: slave.regulate(interval))\n        self.interval = interval\n"))
m("c02-close-snapshot-once", "C02", "O2.3", (R + "asyncio_runner.py", "        while self._tasks:\n            for task in self._tasks.copy():\n", "        pending = self._tasks.copy()\n        while self._tasks:\n            for task in pending:\n"))
m("c01-channel-as-context-manager", "C01", "O3.5", (R + "trio_runner.py", "                self._submit_tasks.send_nowait(payload)\n", "                with self._submit_tasks as channel:\n                    channel.send_nowait(payload)\n"))
m("c03-channel-as-context-manager", "C03", "O3.5", (R + "trio_runner.py", "                self._submit_tasks.send_nowait(payload)\n", "                with self._submit_tasks as channel:\n                    channel.send_nowait(payload)\n"))
m("c01-flush-drops-last", "C01", "O3.1", (R + "meta_runner.py", "            self.register_payload(*queue, flavour=flavour)\n", "            self.register_payload(*queue[:-1], flavour=flavour)\n"))
m("c03-flag-reset-in-finally", "C03", "O3.7", (R + "service.py", "        finally:\n            self.running.clear()\n            self._is_shutdown.set()\n", "        finally:\n            self._must_shutdown = False\n            self.running.clear()\n            self._is_shutdown.set()\n"))
m("c13-flag-reset-in-finally", "C13", "O3.7", (R + "service.py", "        finally:\n            self.running.clear()\n            self._is_shutdown.set()\n", "        finally:\n            self._must_shutdown = False\n            self.running.clear()\n            self._is_shutdown.set()\n"))
m("c13-channel-capacity-zero", "C13", "O3.8", (R + "trio_runner.py", '            max_buffer_size=float("inf")\n', "            max_buffer_size=0\n"))
m("c05-load-name-one-attribute", "C05", "O19.5", ("src/cobald/daemon/config/mapping.py", "                for component in path[1:]:\n", "                for component in path[-1:]:\n"))
m("c19-load-name-start-inner-module", "C19", "O19.5", ("src/cobald/daemon/config/mapping.py", "                obj = sys.modules[path[0]]\n", '                obj = sys.modules[".".join(path[:-1])]\n'))
m("c04-signature-conditional", "C04", "O4.3", (R + "service.py", "        if signature is not None:\n", "        if signature is not None and signature.parameters:\n"))
m("c12-sweep-adopted-in-init", "C12", "O12.4", (R + "service.py", "        self.accept_delay = accept_delay\n", "        self.accept_delay = accept_delay\n        self.adopt(self._accept_services, flavour=trio)\n"), (R + "service.py", '        self._logger.info("%s starting", self.__class__.__name__)\n        self.adopt(self._accept_services, flavour=trio)\n', '        self._logger.info("%s starting", self.__class__.__name__)\n'))
m("c19-walk-state-on-instance", "C19", "O19.1", (G + "core/config.py", "            prev_item, items = None, []\n", "            prev_item, items = None, self.elements\n            items.clear()\n"), (G + "core/config.py", '    def translate_hierarchy(self, structure, *, where="", **construct_kwargs):\n        try:\n            pipeline = structure["pipeline"]\n', '    def __init__(self):\n        self.elements = []\n\n    def translate_hierarchy(self, structure, *, where="", **construct_kwargs):\n        try:\n            pipeline = structure["pipeline"]\n'))
n("c19-walk-result-also-on-instance", "C19", (G + "core/config.py", "            prev_item, items = None, []\n", "            prev_item, items = None, []\n            self.last_elements = items\n"))
n("c15-hit-list-generator-used-once", "C15", ("src/cobald/composite/factory.py", "        excess_demand = sum(child.demand for child in hit_list) - target\n", "        demands = (child.demand for child in hit_list)\n        excess_demand = sum(demands) - target\n"))
n("c09-slave-table-bound-default", "C09", ("src/cobald/controller/switch.py", "        for _, slave in self._slaves:\n            slave.target = target\n        self.interval = interval\n", "        for _, slave in self._slaves:\n            slave.target = target\n        self._regulators = []\n        for _, slave in self._slaves:\n            self._regulators.append(lambda interval, slave=slave: slave.regulate(interval))\n        self.interval = interval\n"))
n("c02-close-snapshot-per-round", "C02", (R + "asyncio_runner.py", "            for task in self._tasks.copy():\n", "            pending = self._tasks.copy()\n            for task in pending:\n"))
# ---- the three defects repaired in round 8: the revert of each repair, and ways to get it wrong
m("revert-fix-C01-stopiteration", "C01", "O1.14", (R + "thread_runner.py", "            if type(failure) is StopIteration:\n                # a Future refuses StopIteration: report it as the cause of a\n                # RuntimeError, the way a coroutine raising it is reported (PEP 479)\n                error = RuntimeError(\"payload raised StopIteration\")\n                error.__cause__ = failure\n                failure = error\n", ""))
m("revert-fix-C10-falsy-exception", "C10", "O10.8", (R + "asyncio_runner.py", "        exception = future.exception()\n        if exception is not None:\n            raise exception\n", ""))
m("c10-falsy-exception-truth-test", "C10", "O10.8", (R + "asyncio_runner.py", "        if exception is not None:\n            raise exception\n", "        if exception:\n            raise exception\n"))
m("revert-fix-C18-compose-node", "C18", "O18.9", (G + "core/config.py", "        if not special_key and node.tag not in self.yaml_constructors:\n            self.construct_undefined(node)\n", ""))
m("c18-compose-node-keys-unchecked", "C18", "O18.9", (G + "core/config.py", "            and index is None\n            and node.tag in (\"tag:yaml.org,2002:merge\", \"tag:yaml.org,2002:value\")\n", "            and index is None\n"))
n("c18-n-compose-node-guard-clause", "C18", (G + "core/config.py", "        if not special_key and node.tag not in self.yaml_constructors:\n            self.construct_undefined(node)\n        return node\n", "        if special_key or node.tag in self.yaml_constructors:\n            return node\n        self.construct_undefined(node)\n        return node\n"))
# ---- third sweep (repaired files only): the repair of C01 half undone; the loader override that stops flattening merges
m("c01-stopiteration-cause-dropped", "C01", "O1.14", (R + "thread_runner.py", "                error.__cause__ = failure\n", ""))
m("c01-stopiteration-wrapper-unused", "C01", "O1.14", (R + "thread_runner.py", "                failure = error\n", "                pass\n"))
m("c05-merge-no-longer-flattened", "C05", "O18.10", (G + "core/config.py", "        super().flatten_mapping(node)\n", "        pass\n"))
m("c13-merge-no-longer-flattened", "C13", "O18.10", (G + "core/config.py", "        super().flatten_mapping(node)\n", "        pass\n"))
m("c13-compose-node-returns-nothing", "C13", "O18.10", (G + "core/config.py", "            self.construct_undefined(node)\n        return node\n", "            self.construct_undefined(node)\n"))
m("revert-fix-C01-stopiteration-asyncio", "C01", "O1.14", (R + "asyncio_runner.py", "            if type(failure) is StopIteration:\n                # raised by calling ``payload`` itself; a Future refuses StopIteration:\n                # report it as the cause of a RuntimeError, as for a coroutine (PEP 479)\n                error = RuntimeError(\"payload raised StopIteration\")\n                error.__cause__ = failure\n                failure = error\n", ""))
m("c01-stopiteration-asyncio-cause-dropped", "C01", "O1.14", (R + "asyncio_runner.py", "                error = RuntimeError(\"payload raised StopIteration\")\n                error.__cause__ = failure\n                failure = error\n            self._payload_failure.set_exception(failure)\n\n    async def manage_payloads", "                error = RuntimeError(\"payload raised StopIteration\")\n                failure = error\n            self._payload_failure.set_exception(failure)\n\n    async def manage_payloads"))
