#!/usr/bin/env python3
"""ad-hoc: tools/trymut.py <PID> <relative file> <old> <new>  -- run one check on a scratch copy with one edit"""
import os, shutil, sys, tempfile
HERE = os.path.dirname(os.path.dirname(os.path.abspath(__file__)))
sys.path.insert(0, HERE)
from selftest import harness
pid, rel, old, new = sys.argv[1:5]
base = tempfile.mkdtemp(prefix="trymut-")
try:
    root = harness.make_scratch(os.environ.get("VERIF_REPO", "/repo"), base)
    if not harness.apply_edits(root, [(rel, old, new)]):
        print("EDIT SITE NOT FOUND (or not unique)"); sys.exit(3)
    code, out = harness.run_check(pid, root, os.path.join(root, "ev"))
    print(out.replace(root + "/", ""))
    print("exit", code)
finally:
    shutil.rmtree(base, ignore_errors=True)
