#!/bin/bash
# tools/rebase_seed.sh <old-base> <fix-commit> <patch.diff> <out.diff>
# re-base a seeded patch made against <old-base> onto <fix-commit> (commit the seed on the old base, cherry-pick the fix)
old=$1; fix=$2; patch=$3; out=$4
wt=/tmp/wk_rebase_$$
git -C /repo worktree add -q --detach $wt $old || exit 3
cd $wt
if ! git apply $patch; then echo "seed does not apply on $old"; cd /; git -C /repo worktree remove --force $wt; exit 4; fi
git -c user.name=x -c user.email=x@x commit -qam seed
if git -c user.name=x -c user.email=x@x cherry-pick $fix >/dev/null 2>&1; then
  git diff $fix HEAD -- src > $out; echo "REBASED $(basename $(dirname $patch))"
else
  echo "CONFLICT $(basename $(dirname $patch)):"; git diff --name-only --diff-filter=U; git cherry-pick --abort
fi
cd /; git -C /repo worktree remove --force $wt
