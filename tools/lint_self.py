#!/usr/bin/env python3
"""development: undefined-name lint over /verif's own Python files (the checker must not hide a NameError in a rarely
taken branch); prints (file, line, name) for every load of a name that is neither local, enclosing, module-level nor builtin"""
import ast, builtins, os, sys

HERE = os.path.dirname(os.path.dirname(os.path.abspath(__file__)))


def check(path):
    tree = ast.parse(open(path).read())
    modnames = set(dir(builtins)) | {"__file__", "__name__", "__doc__"}
    for n in ast.walk(tree):
        if isinstance(n, (ast.Import, ast.ImportFrom)):
            for a in n.names:
                modnames.add((a.asname or a.name).split(".")[0])
    for n in tree.body:
        if isinstance(n, (ast.FunctionDef, ast.AsyncFunctionDef, ast.ClassDef)):
            modnames.add(n.name)
        else:
            for x in ast.walk(n):
                if isinstance(x, ast.Name) and isinstance(x.ctx, ast.Store):
                    modnames.add(x.id)
    out = []

    def params(a):
        s = {x.arg for x in a.posonlyargs + a.args + a.kwonlyargs}
        if a.vararg:
            s.add(a.vararg.arg)
        if a.kwarg:
            s.add(a.kwarg.arg)
        return s

    def visit(fn, outer):
        loc = set(outer) | params(fn.args)

        def collect(n):
            for c in ast.iter_child_nodes(n):
                if isinstance(c, (ast.FunctionDef, ast.AsyncFunctionDef, ast.ClassDef)):
                    loc.add(c.name)
                    continue
                if isinstance(c, ast.Lambda):
                    continue
                if isinstance(c, ast.Name) and isinstance(c.ctx, (ast.Store, ast.Del)):
                    loc.add(c.id)
                if isinstance(c, ast.ExceptHandler) and c.name:
                    loc.add(c.name)
                if isinstance(c, (ast.Import, ast.ImportFrom)):
                    for al in c.names:
                        loc.add((al.asname or al.name).split(".")[0])
                if isinstance(c, (ast.Global, ast.Nonlocal)):
                    loc.update(c.names)
                collect(c)

        collect(fn)

        def use(n, env):
            for c in ast.iter_child_nodes(n):
                if isinstance(c, (ast.FunctionDef, ast.AsyncFunctionDef)):
                    visit(c, env)
                    continue
                if isinstance(c, ast.ClassDef):
                    for st in c.body:
                        if isinstance(st, (ast.FunctionDef, ast.AsyncFunctionDef)):
                            visit(st, env)
                    continue
                if isinstance(c, ast.Lambda):
                    use(c, set(env) | params(c.args))
                    continue
                if isinstance(c, (ast.ListComp, ast.SetComp, ast.DictComp, ast.GeneratorExp)):
                    e2 = set(env)
                    for g in c.generators:
                        for x in ast.walk(g.target):
                            if isinstance(x, ast.Name):
                                e2.add(x.id)
                    use(c, e2)
                    continue
                if isinstance(c, ast.Name) and isinstance(c.ctx, ast.Load) and c.id not in env and c.id not in modnames:
                    out.append((path, c.lineno, c.id))
                use(c, env)

        use(fn, loc)

    for n in tree.body:
        if isinstance(n, (ast.FunctionDef, ast.AsyncFunctionDef)):
            visit(n, set())
        if isinstance(n, ast.ClassDef):
            for st in n.body:
                if isinstance(st, (ast.FunctionDef, ast.AsyncFunctionDef)):
                    visit(st, set())
    return out


bad = 0
for dp, dn, fn in os.walk(HERE):
    if ".git" in dp or "seeded" in dp:
        continue
    for f in fn:
        if f.endswith(".py"):
            for r in check(os.path.join(dp, f)):
                print(r)
                bad += 1
print("undefined names: %d" % bad)
sys.exit(1 if bad else 0)
