#!/usr/bin/env python3
"""Regenerates MANIFEST.json from the table below (keeps it valid at all times)."""
import json
import os
import sys

HERE = os.path.dirname(os.path.dirname(os.path.abspath(__file__)))

# id -> (technique, decided clauses, undecided clauses)
TABLE = {
    "C01": (
        "path-sensitive abstract interpretation of the failure chain (outcome tables per monitor) + callable-flow / execution-context analysis",
        "error discipline of the whole failure chain: for each of the 3 payload monitors x 8 payload outcome classes the path ends in the failure signal / monitored propagation the property requires; the signal reaches runner.run, MetaRunner._manage_runners (exception-propagating join over all runner tasks), MetaRunner.run (RuntimeError ... from err) and accept unchanged; services enter the same chain; asyncio objects are only touched from the loop thread",
        "that asyncio/trio behave as recorded in sa/libfacts.py; timing; exception-group nesting; GIL-level data races",
    ),
    "C02": (
        "must-pass-through and pairing rules decided by path-sensitive abstract interpretation with designated throw sites",
        "close-all is awaited on every exceptional exit of the supervising coroutine before it exits; the asyncio close loop only ends when the task registry is empty and cancels every unfinished task; the trio nursery scope is cancelled after the receive loop; trio runs on the default executor which asyncio.run joins; thread payloads are daemon threads that nobody joins; stop() closes every runner through the loop",
        "payloads that suppress cancellation; durations; that no payload step runs after loop close (library fact)",
    ),
    "C03": (
        "linear (exactly-once) use analysis of the payload value along the registration chain + typestate rules (send-after-close, service started-flag) by abstract interpretation",
        "each payload is forwarded exactly once per function of the registration chain (queue / runner / spawn primitive / channel / invocation), under the requested flavour and with (*args, **kwargs) bound in order; adopt returns nothing and blocks on nothing; every send into the trio submit channel tolerates the shutdown exceptions; a service unit is marked started exactly on the paths that register its run method and the sweep skips started units",
        "GIL-window races on the plain dict of queues; weak-reference timing",
    ),
    "C04": (
        "static model of inspect.signature(cls) over the class table (MRO, decorator effects) + abstract interpretation of Partial/PartialBind over operand kinds + term checks on argument order",
        "every template construction runs the eager signature check; the check binds against the constructor's real signature (signature visibility for all 15 template classes incl. the six @service classes), with one placeholder iff the template is not a leaf; leaf flags agree with the constructors; currying and __construct__ keep positional order and reject duplicate keywords; every PartialBind built by >> preserves the flattened element order; the pool branch folds right to left; leaf templates are constructed exactly once",
        "equality with hand nesting for all chains/signatures (algebraic statement); Signature.bind_partial itself",
    ),
    "C05": (
        "node-kind exhaustiveness and linking-loop rules by abstract interpretation with origin terms; narrow-try rule over the call graph",
        "the YAML constructor maps mapping/sequence/scalar nodes to **kwargs/*args/no arguments and raises otherwise; plugins are registered as '!'+name on the given loader with .s when present; the pipeline loop iterates the reversed enumeration with original indices, links every element to the previous accumulator in target position exactly once, constructs a template tail, appends after re-binding and re-reverses; no swallowing handler has a factory call in its try body",
        "PyYAML's construction order; equality with the >> pipeline (rests on C04)",
    ),
    "C06": (
        "exhaustive enumeration of weak orderings through the clamp helper + origin-term (operator order) check of the sanitising pipeline",
        "NARROW (necessary structural clauses of a numeric property): the clamp helper is a clamp over all 13 weak orderings of its arguments; the forwarded value is clamp(min, clamp(supply-backlog, floor(value,g), supply+surplus), max) with nothing applied after the outer clamp, the own record the same without the floor; the floor helper rounds down to a multiple; resync iff |own-target| >= granularity; the constructor accepts only min<=max, surplus/backlog/granularity > 0; the un-floored shortcut only for granularity == 1; no other accessor overridden",
        "the numeric statements themselves (bounds after rounding, 'less than one granule', n unit increments), float behaviour, histories",
    ),
    "C07": (
        "origin-term agreement checks (numerator/denominator, iteration domains, sibling symmetry) on both composites",
        "NARROW: the setter stores its parameter unmodified where the getter reads it; distribution, supply, fitness sums, total weight and child count range over the same unfiltered children; each share is value*w/W with w the summand of W, fallback value/n; property p aggregates the children's p and utilisation/allocation are identical under the attribute swap; the ZeroDivisionError fallbacks return exactly the documented constants; the weight argument is validated",
        "conservation up to rounding, share bounds/convexity for arbitrary values, histories with children added/removed",
    ),
    "C08": (
        "exhaustive enumeration of the controllers' decision tables over all orderings of (utilisation, low) x (allocation, high) by abstract interpretation; orderings of the range predicate; loop-shape rules",
        "both threshold controllers have exactly the documented 9-entry decision table with step interval*rate resp. supply*scale; constructor assertions have the documented orientation; the stepwise range predicate is half-open, rules enter sorted, one rule per step, demand written iff result is not None; the switch selects the last slave with threshold <= demand, delegates exactly once, re-targets all slaves",
        "arithmetic of the step itself; behaviour of user rules",
    ),
    "C09": (
        "loop-typestate analysis of every @service run method by abstract interpretation of one iteration + attribute resolution over the class table",
        "all 6 service run methods are unconditional infinite loops without exits whose every iteration performs exactly one step and exactly one awaited trio.sleep of the configured interval/window (controllers: step first), the step gets the same interval; everything they call on self exists; Buffer shadows demand and flushes the pending value iff it differs; FactoryPool shrinks iff supply > demand else grows",
        "real/virtual time, drift, trio.sleep keeping its period",
    ),
    "C10": (
        "return-value identity (origin terms) and exception transparency (designated throws) along the execute chain + who-may-call bypass query",
        "each function on execute -> run_payload -> runner.run_payload returns the un-transformed result of the next and has no handler; the leaves return the payload's own result; nothing reachable from run_payload touches the failure monitor, failure future, task registry or submit channel; arguments are bound exactly once in order; coroutines are routed into the runner's own loop/token",
        "deadlock freedom for same-flavour callers (excluded by the statement); liveness of bystanders",
    ),
    "C11": (
        "who-may-call queries over the resolved call graph with expected counts and embedded positive controls + execution-context inference",
        "exactly one asyncio.run and one trio.run exist and no other loop/run creation primitive is called anywhere; every route by which a coroutine payload starts (register and execute) targets self.asyncio_loop / self._trio_token, each assigned once from inside the single loop/run; asyncio payload invocations have context LOOP only, trio TRIO only, adopted thread payloads NEW-THREAD only",
        "that asyncio and trio are single-threaded per loop/run (library)",
    ),
    "C12": (
        "pairing rules in pessimistic exception mode (every call may throw) + protocol-order rules by abstract interpretation",
        "the exclusive wrapper releases its shared lock exactly once on every exit of the successful-acquire path and raises RuntimeError without touching it otherwise, acquire is non-blocking; the sweep's clear/set of the two events is undone in a finally covering every exit; shutdown sets the flag before waiting and stops runners after; the sweep tests the flag each iteration with a bounded sleep and returns None; accept resets the flag; runners/mappings are fresh per run",
        "'within bounded time'; shutdown called from inside a coroutine payload",
    ),
    "C13": (
        "start-up order and keep-alive (escape) chain by origin terms; dispatch totality by abstract interpretation",
        "NARROW (wiring the process-level behaviour depends on): run adopts the loader with flavour asyncio and the path before accept(); _load_services parks forever inside the with-load block; load keeps the loader's result bound at the yield; each loader returns / stores what it built; extension dispatch is total (.yaml/.yml, .py, else raise); nothing on __main__ -> cli_run -> run -> accept swallows",
        "exit codes, signal delivery, logging output (process level)",
    ),
    "C14": (
        "dominance / exactly-once / result-partition rules by abstract interpretation with designated throws; orientation and totality (contradiction rule) of the dependency map",
        "the unknown-section raise dominates every digest and logging is removed first; a missing section raises iff required; a present section is digested exactly once with its own content outside the KeyError try and the result is kept iff `is not None`; `after` names are members of the plugin's own entry and the plugin of each `before` entry; every lookup of a constraint name is total; the constraints decorator stores/reads before/after/required under their own names",
        "toposort's algorithm; cyclic constraint graphs",
    ),
    "C15": (
        "who-may-write queries on the two child sets + guard-orientation enumeration by abstract interpretation",
        "NARROW: the active set grows only from the constructor's children and the factory's result, the released set only in the release step, nothing moves back; release sets demand 0, removes and adds on every path; grow and shrink always end in the reap step which releases children with demand <= 0; grow spawns while missing > 0, shrink releases iff child.demand <= excess and stops at excess <= 0; aggregation domains and fallbacks",
        "the 'just enough' invariants over histories; weak-reference lifetime",
    ),
    "C16": (
        "forwarding-identity terms, override census over the class table, log-dominates-write event order, key-set agreement",
        "PoolDecorator's five accessors forward to the same attribute of target unmodified; Logger/Standardiser/Buffer override nothing but demand; the Logger setter emits exactly one log call that dominates exactly one unmodified write, on the configured logger/level/template with every field read from target before the write; the emission key set equals the validation key set; the template is validated on every constructor path and a KeyError becomes a raised error",
        "the logging module's record handling",
    ),
    "C17": (
        "origin-term analysis of the escaping pipeline per syntactic position against the line-protocol table; event-order check of the JSON merge",
        "each of the five line-protocol positions applies an escape chain covering the position's required characters (backslash before quote in strings), nothing rewrites text after escaping/assembly, tag values are coerced to text, non-string fields are rendered by formatting, the timestamp is floor(created, r) in integer nanoseconds iff a resolution is set, the line ends in one newline; tags/fields split by whitelist and record attributes with record values overriding defaults; JSON: defaults.copy, time iff enabled, message, data, one json.dumps",
        "round-trip through a real parser for every string (no parser is run)",
    ),
    "C18": (
        "class-table ancestry query + who-may-call queries with expected count zero and embedded positive controls + static cross-read of the installed PyYAML",
        "COBalDLoader derives from SafeLoader only; load hands exactly that loader to the YAML reader, which instantiates exactly its loader parameter (default safe); there is no call of yaml.load/load_all/unsafe_load/full_load, no reference to an unsafe loader class, no add_multi_constructor, no python/ tag literal; add_constructor is called only for '!'+entry-point name with names starting with '!' rejected; the installed SafeConstructor registers only tag:yaml.org,2002:* tags",
        "PyYAML internals beyond the cross-read",
    ),
    "C19": (
        "def-use and string-template terms of the recursive translation + flag-sensitive abstract interpretation of the error wrapping",
        "construct receives the mapping of already-translated children exactly once iff __type__ is a key; lists are translated over reversed(list(enumerate())) and re-reversed; child locations are where+'.'+key resp. where+'['+index+']' extensions of the current where; a located configuration error is re-raised unchanged, an unlocated one gets the current where, anything else is wrapped with the current where and chained; construct removes the two reserved keys and calls the factory once with *args, **rest; load_name raises for unresolvable names",
        "import-system behaviour inside load_name",
    ),
}


# obligations added while testing the checks against independent seeded changes and generated sweeps (DESIGN.md 11.5-11.9)
ADDED = {
    "C01": "failures raised on the trio thread hop into the loop thread only through thread-safe primitives; the runner mapping is emptied on EVERY exit of the supervising coroutine (graceful stop, failure, interrupt, cancellation); the task registry is a strong container whose entries are removed only by the monitor of the finished task; OrphanedReturn's constructor is total; the termination rules of C02 (supervisor, close-all, runner shutdown) hold; accept() lets a failure of the meta runner's run() pass unchanged -- also one of a class its own handlers name -- and never runs the runtime a second time (O1.7); the event loop's own call_soon / call_later / create_task are called only in the loop's context (a payload thread must use call_soon_threadsafe); every queued / adopted payload reaches exactly one runner -- the flush of the pre-start queue hands over ALL queued payloads, the trio submit channel tolerates shutdown, is written only by the trio run and is never used as a context manager outside it (O3.1 / O3.5 shared with C03); no handler on the failure chain formats the exception it caught eagerly (O1.13); every monitor -- synchronous or coroutine -- that catches what the CALL of the payload raises and hands it to Future.set_exception is interpreted with a call that raises StopIteration (O1.14, library fact: asyncio.Future.set_exception refuses it; PEP 479 only converts a StopIteration that leaves a coroutine frame); a failing adopt step leaves the service sweep by raising (O3.7 shared with C03); what a StopIteration is replaced by is interpreted: the future is handed ANOTHER exception that carries the StopIteration as its cause",
    "C02": "a KeyboardInterrupt at the join is absorbed after close-all; the final join of close-all waits for ALL runner tasks (gather with return_exceptions=True / wait ALL_COMPLETED); no polling or looping over payload threads; the submit channel is not cloned; BaseRunner.run clears the stopped flag before managing payloads and sets it on every exit, stop() reads that flag; close-all waits for each runner's aclose() without a deadline (no wait_for(..., timeout) / asyncio.timeout around it); own coroutines only aclose awaits are part of aclose; the aclose routing of the trio runner is resolved through local aliases and local functions; runners are stopped and closed in launch order, one whose aclose() waits for its payloads (asyncio) after those that only signal (trio) (O2.8); the runner mapping is emptied only after the runners are closed and joined; the snapshot of the task registry the asyncio close loop ranges over is taken inside the loop (a task adopted after a snapshot taken once is never cancelled); synchronous helpers only the close path calls are part of it",
    "C03": "argument binding does not depend on a forked condition over the argument values; the hand-over channel is unbounded; only the trio run writes channel / token; nothing on the registration chain formats the payload eagerly (a raising __repr__ must not escape from adopt); the unit registry is a weakref.WeakSet; O3.10 the queue-or-register decision is atomic with the switch to direct registration (OPEN KNOWN FINDING on the current tree, see known_findings.json); a failing adopt step leaves the service sweep by raising; the runner mapping is emptied only after close-all has closed and joined the runners (O2.1 / O2.2 shared with C02); the shutdown request flag is written only in __init__ (False), at the start of accept (False) and in shutdown (True), and accept itself adopts the sweep, so every run sweeps the services (O3.7, shared with C12); the submit channel is not used as a context manager outside the trio run (library fact: MemorySendChannel.__exit__ closes); the unit registry (a WeakSet) is copied in one C-level step over its backing set, never by iterating the WeakSet itself; each flushed queue is emptied before the next one is registered; O3.11 the in-thread fallback of the trio runner compares the current trio token with the runner's before it touches the channel (OPEN KNOWN FINDING, library fact: trio.from_thread.run refuses in any thread that runs a trio task)",
    "C04": "the published __signature__ is exactly one leading parameter plus the raw class's own parameters (other sources, an inverted guard or a dead guard count as not published); the reduce idiom of the pool branch folds right to left; Partial.__init__ / __call__ take no named parameter besides (ctor, *args, __leaf__, **kwargs) / (*args, **kwargs); a signature published only under an extra condition (`signature is not None and signature.parameters`) counts as hidden for the classes the condition excludes; the constructor's signature is taken without options (follow_wrapped=False checks a decorated constructor against (*args, **kwargs)); no handler around a construct call / >> binding translates or swallows the constructor's own exception (O4.9)",
    "C05": "child translations receive only where= (no construct kwargs leak downwards); the shared template rules of C04 and the structure rules of C19 hold; the YAML document is read while its stream is open (O13.7); the no-template-survives guard never fires for a well-formed pipeline (a template in tail position is constructed first); the fallback walk of load_name starts at the top-level package and follows every remaining component (O19.5); the re-entrant translate_hierarchy changes nothing on the instance in place during the walk (O19.1); the loader's overrides (flatten_mapping, compose_node) still do PyYAML's part for a document without an offending tag: merges are flattened, composed nodes returned unchanged (O18.10)",
    "C06": "the median-of-three spelling of the clamp is the same clamp; fmod-based floors are rejected, divmod-based ones accepted; both edges of the supply window come from ONE read of the target's supply; the constructor validation is enumerated with NaN as a fourth, unordered outcome of every comparison; the resynchronisation test is the exact comparison, not math.isclose / rounding; no write to the target's demand inside an except handler or a finally block (O6.7)",
    "C07": "every constructor path binds a fresh container of the given children and initialises the stored demand; the total weight is the un-thresholded sum; getters return a value on every path; a getter never answers from a remembered field on some paths (memoised supply / allocation)",
    "C08": "the range table is {(0, inf): base} without rules and otherwise zip([0,*T],[*T,inf],[base,*R]) over (T,R)=zip(*sorted(rules)) entered into the returned dict, stored by the selector's constructor in the attribute get_rule reads (term-level, not text); add records exactly (supply, rule) and returns the rule, the skeleton builds Stepwise(target, base, *rules[, interval]), Stepwise binds target, interval and RangeSelector(base, *rules); sorts are ascending; slaves are re-targeted before validation; the table is not a mutable object shared on the class; ranges come from overlapping consecutive bounds; a failure of the chosen controller's step leaves DemandSwitch.regulate unchanged after exactly one delegation (no fallback to a second controller); no wait between looking the rule up by the current supply and applying it; the threshold table is decided over 16 orderings including the unordered (NaN) outcome of each comparison; the slave list of a DemandSwitch is cut into DISJOINT pairs (not itertools.pairwise); UnboundStepwise.add records nothing on a path that ends in the refusal of a re-defined threshold",
    "C09": "decoration and flavour of every service class; the step's effect precedes the sleep; no class-level attribute shadows a step method; Buffer binds its target and starts from the target's demand; the reap rules of C15 hold for FactoryPool; no step orders children (or tuples containing them) without a key; the Stepwise range table covers [0, inf) without gaps (rules O8.4 / O8.6 of C08); one LinearController step moves demand by the interval it is HANDED times the rate (O8.1, shared with C08); FactoryPool.run does not wait between reading supply / demand and adjusting; the aggregates of an empty FactoryPool are the documented 1.0, not an exception (O15.5 shared with C15); awaited private coroutines are read in place",
    "C10": "own-class helpers are inlined; besides four fixed classes, one exception per class named by a handler on the chain is injected at the payload (a handler meant for the machinery must not swallow or rewrite the same class raised by the payload); an own raise is accepted only as the look-before-you-leap spelling of the subscription's KeyError; a guard that the type facts decide False on every explored path is not an own raise; the crossing bound once at construction (partial(run_coroutine_threadsafe, loop=...)) is read as the call it stands for; the execute chain never uses the payload as a key / member / comparand (O10.7); an outcome taken from a concurrent future asks exception() is not None before result() (O10.8, library fact: Future.result tests the stored exception for truth)",
    "C11": "no function whose context includes LOOP or TRIO calls a blocking threading primitive; trio.run either called in a sync helper handed to run_in_executor by manage_payloads or handed directly as run_in_executor(None, trio.run, entry); one nursery opened once inside the functions owned by the trio run; no threading lock is both held across an unbounded wait (execute's wait, join, blocking from_thread call) and taken on the loop / trio thread; a monitor calls the payload itself and never hands it to a spawn primitive of another context; each runner routes an executed payload into its own loop / trio run with its own token (O10.4 / O10.5 shared with C10); the exclusive guard's acquire / release pairing (O12.1 shared with C12): a refused accept must not release the guard of the running one",
    "C12": "every polling cycle passes an awaited trio checkpoint; the runner mapping is emptied on every exit of the supervising coroutine; closing wakes manage_payloads; shutdown waits without timeout only for events the sweep sets inside the runtime (never for the end of accept itself); the stopped-flag protocol of BaseRunner.run / stop; shutdown returns when every aclose() does: the asyncio runner re-cancels every unfinished task each round, the trio runner cancels its nursery, close-all joins all runner tasks (O2.1, O2.3, O2.4 shared with C02); a KeyboardInterrupt passes manage_payloads, BaseRunner.run and the supervising coroutine unchanged (O1.1, O1.3-O1.5 shared with C01); the failure or interrupt of a payload thread wakes the loop through a thread-safe hand-over (O1.9 shared with C01); the sweep coroutine is adopted by accept, not once per object (a later accept of the same runner would run no sweep)",
    "C13": "disable_existing_loggers defaults to False before dictConfig; the whole fail-stop chain of C01 and the service typestate / sweep rules of C03 hold; run() adopts the loader exactly once before accept; the YAML document is read while its stream is open (O13.7); nothing logs through the root-logger functions before logging.basicConfig (O13.8); a Python configuration is registered in sys.modules before it is executed (O13.9); the CONFIGURATION argument of the CLI reaches run() as typed: no converter that follows symbolic links or edits the text (its extension selects the loader); a named park duration is a constant or unsupplied default that is infinite; the loader is chosen by splitext(path)[1]; the logging section is taken out before unknown sections are rejected and plugins see exactly their sections (O14.1 / O14.2 shared with C14); the trio hand-over channel is unbounded (services are adopted from inside the trio thread with send_nowait, O3.8) and the request-flag writers rule of C03 / C12 holds; legacy element names resolve at any depth (O19.5) and no handler in the configuration modules mistakes a constructor's TypeError / KeyError for 'not a pipeline' (O5.4), shared with C19 / C05; the loader's overrides (flatten_mapping, compose_node) still do PyYAML's part for a document without an offending tag (O18.10)",
    "C14": "the plugins are digested in the order they are given in; SectionPlugin.load returns on every path a plugin built from THIS entry point (name, loaded object); defaults of required/before/after are False/empty in both the decorator and PluginRequirements; the result of the topological sort is filtered to installed plugins; the unknown-section check compares the very names that are looked up (no strip / casefold / lower inside the validation); decorator and loader agree on the attribute name also when it is a defaulted parameter of a helper; building the text of a configuration error cannot fail itself: no str.join over a collection of plugin objects (O14.7)",
    "C15": "the spawned child is added to the active set exactly once per grow iteration; a demand write stores the value in the attribute the getter returns and the constructor initialises; the run loop shrinks iff supply > demand else grows with target=demand (shared with C09); getters return a value on every path; the excess is reduced before the child is released; no sort of children without a key; each spawned child is booked with its OWN demand (two iterations explored); a failing demand setter in the release step is not swallowed; the bulk form of the release helper is read as the per-child step (sa/normalise.py); the adjustment steps are the methods run() calls with the demand, their loops may live in private helpers",
    "C16": "the validation mapping knows a field by the presence of its KEY, not by the truth of its test value; no decorator writes the target's demand inside an except handler or a finally block (O16.6)",
    "C17": "escaped sets EQUAL the position's table (no over-escaping); shared default mappings are copied; record.args == ({},) continues with an empty mapping in both formatters; the time key is added iff enabled; the tag whitelist is exactly the set of the given names (no normalisation of the names); json.dumps is called without sort_keys / skipkeys; the per-key copy of whitelisted tags is not one loop inside a single swallowing try",
    "C18": "the YAML document is read while its stream is open (O13.7); no handler around a loader.construct_* / get_single_data call swallows the ConstructorError that rejects python/* and unregistered tags (O18.6); the whole stream is parsed (get_single_data, not get_data); a tag on the value of a merge key is checked against the loader's constructor table before PyYAML splices the content in (O18.7, library cross-read of flatten_mapping); O18.7 is decided by interpreting the loader's flatten_mapping override on four scenario nodes (tagged mapping value, tagged list value, tagged element of a list value, benign): construct_undefined is reached on exactly the first three; O18.9 every composed node whose tag has no exact constructor is rejected at composition (the tag-skipping consumers of the installed SafeConstructor -- the value of a `=` key, !!omap / !!pairs entries, merge values -- and Composer.compose_node are cross-read from the installed PyYAML; the loader's compose_node override is interpreted for a node at every kind of position); when O18.9 holds the construction-time rules it makes unreachable (prefix constructors, the catch-all entry, handlers around construct_*, the merge-value override, the tag a plugin is registered under) are discharged as implied, otherwise evaluated as before; O18.8 the loader's constructor tables only grow",
    "C19": "child translations receive only where=; the pipeline translator's linking loop (shared with C05); locations built from nested %-templates are flattened before comparison; nothing that can fail for a __type__ mapping runs before its children are translated; own location helpers are read in place; the fallback walk of load_name starts at components[0] and follows components[1:]; the re-entrant translate_hierarchy changes nothing on the instance in place during the walk",
}
EVERY = "for the property's anchor files (thorough tier: the whole package), each with an embedded control example -- O0.1: every function is interpreted once and reads no local or global name that no earlier statement on the path has bound; O0.2: every read self.x names something the class hierarchy defines or assigns; O0.3: no method mutates through self a mutable object created once in the class body and never re-bound per instance, no instance method stores on the class (Cls.x = / type(self).x =), no descriptor keeps the assigned value on itself; O0.4: no function keeps or mutates a default argument that is one mutable object / one instance of a package class made at definition time; O0.5: no lambda / nested function created in a loop and kept for later reads the loop variable late; O0.6: no one-shot iterator bound to a local is consumed twice"


def main():
    claimed = sys.argv[1:] if len(sys.argv) > 1 else None
    state_path = os.path.join(HERE, "tools", "claimed.json")
    if claimed is None:
        with open(state_path) as f:
            claimed = json.load(f)
    else:
        with open(state_path, "w") as f:
            json.dump(sorted(claimed), f)
    checks = []
    na = []
    for pid in sorted(TABLE):
        tech, decided, undecided = TABLE[pid]
        if pid in claimed:
            checks.append(
                {
                    "property_id": pid,
                    "quick_cmd": "./check %s --tier quick" % pid,
                    "thorough_cmd": "./check %s --tier thorough" % pid,
                    "evidence_file": "/verif/evidence/%s.json" % pid,
                    "replay_cmd_template": "./check %s --replay {path}" % pid,
                    "engine": "sa",
                    "level_claimed": {
                        "category": "other",
                        "text": "Static analysis of /repo's source, never executed: the check decides, for every input/schedule/history at once, "
                        "the following clauses, each a necessary condition of the property -- " + decided + ("; ALSO: " + ADDED[pid] if ADDED.get(pid) else "") + "; " + EVERY + ". NOT decided (outside the reach of a static argument here): " + undecided + ". "
                        "An alarm is raised only for shapes known to break the behaviour; an unrecognised shape is ANALYSIS-ERROR (exit 2), never a pass.",
                        "design_ref": "DESIGN.md section 4, %s" % pid,
                    },
                    "level_note": "trusted base: CPython's ast parser; the frozen library facts of sa/libfacts.py (trio exception hierarchy, from_thread.run, PyYAML loaders, asyncio.run joining the default executor; cross-read from the installed sources on every run); the idiom tables in sa/rules/%s.py; no monkey-patching at run time" % pid.lower(),
                    "technique": "static analysis: " + tech,
                }
            )
        else:
            na.append({"property_id": pid, "reason": "check not implemented yet in this commit (build in progress, DESIGN.md section 10); planned technique: " + tech})
    manifest = {
        "version": 1,
        "setup_cmd": "/venv/bin/python -B /verif/tools/selfcheck.py || python3 -B /verif/tools/selfcheck.py",
        "hooks": {
            "guard": "MATTERMINERS_COBALD_VERIF",
            "enable": "no hooks: the checks read /repo's source, they never build or run it",
            "baseline_off_cmd": "cd /repo && /venv/bin/python -m pytest -ra -q -p no:cacheprovider --timeout=900 --continue-on-collection-errors",
            "source_commits": [],
            "add_only": True,
        },
        "engines": [
            {
                "name": "sa",
                "path": "/verif/sa",
                "serves_properties": sorted(claimed),
                "kind_free_text": "repository-specific static analyser (pure stdlib ast): program index with C3 MRO and import resolution, path-sensitive abstract interpreter over finite domains with origin terms, who-may-call queries, library-fact cross-read",
            }
        ],
        "checks": checks,
        "notes": "All checks are static (no code of /repo is executed). Exit 0 = held, 1 = VIOLATION, 2 = ANALYSIS-ERROR (undecided / anchor missing). "
        "The thorough tier explores every loop one iteration further than the rules ask for (more paths, same obligations), applies O0.1 / O0.2 (unbound reads, unresolved self.x) to every function of the package instead of the property's anchor files, adds package-wide generalisations of rules, and runs the mutant / neutral / seeded self-test of the checker on scratch copies (reported in the evidence, never deciding the exit code).",
        "not_applicable": na,
    }
    with open(os.path.join(HERE, "MANIFEST.json"), "w") as f:
        json.dump(manifest, f, indent=1)
    print("claimed:", sorted(claimed))


if __name__ == "__main__":
    main()
