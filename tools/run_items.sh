#!/bin/bash
# tools/run_items.sh <PID> <item>...   confirm seeds (letters) / refactorings (N*) of one property, compact output
p=$1; shift
for x in "$@"; do
  case $x in
    N*) /venv/bin/python /verif/tools/confirm_neutral.py $p $x --keep 2>&1 | grep -v "^refactored: [A-Z]/\|^refactored: full\|^kept" | cut -c1-420;;
    *)  /venv/bin/python /verif/tools/confirm_seed.py $p $x --keep 2>&1 | grep -v "^clean\|^patched: full\|^patched: demo\|^kept" | cut -c1-420;;
  esac
done
