#!/usr/bin/env python3
"""setup step: nothing to build -- verify that every checker module parses and imports"""
import importlib
import os
import sys

HERE = os.path.dirname(os.path.dirname(os.path.abspath(__file__)))
sys.path.insert(0, HERE)
mods = ["sa.report", "sa.index", "sa.interp", "sa.libfacts", "sa.util", "sa.main"]
for fn in sorted(os.listdir(os.path.join(HERE, "sa", "rules"))):
    if fn.startswith("c") and fn.endswith(".py"):
        mods.append("sa.rules." + fn[:-3])
for m in mods:
    importlib.import_module(m)
print("setup ok: %d checker modules import" % len(mods))
