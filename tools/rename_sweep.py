#!/usr/bin/env python3
"""development: consistently rename one private identifier at a time across the package (behaviour preserving)
and run every check; prints identifiers for which some check does not stay at exit 0"""
import ast, os, re, shutil, subprocess, sys, tempfile
from concurrent.futures import ThreadPoolExecutor
HERE = os.path.dirname(os.path.dirname(os.path.abspath(__file__)))
sys.path.insert(0, HERE)
from selftest import harness
repo = "/repo"
names = set()
for dp, dn, fn in os.walk(repo + "/src"):
    for f in fn:
        if f.endswith(".py"):
            src = open(os.path.join(dp, f)).read()
            for n in ast.walk(ast.parse(src)):
                if isinstance(n, ast.Attribute) and n.attr.startswith("_") and not n.attr.startswith("__"):
                    names.add(n.attr)
                if isinstance(n, (ast.FunctionDef, ast.AsyncFunctionDef)) and n.name.startswith("_") and not n.name.startswith("__"):
                    names.add(n.name)
                if isinstance(n, ast.Name) and n.id.startswith("_") and not n.id.startswith("__") and len(n.id) > 2:
                    names.add(n.id)
names -= {"_asdict", "_replace", "_fields"}
# a textual rename of a name that is also a module name would break the imports (not behaviour preserving)
names -= {os.path.splitext(f)[0] for dp, dn, fn in os.walk(repo + "/src") for f in fn if f.endswith(".py")}
only = sys.argv[1:]
if only:
    names = set(only)
base = tempfile.mkdtemp(prefix="rename-sweep-")
PIDS = ["C%02d" % i for i in range(1, 20)]

def one(name):
    root = harness.make_scratch(repo, base)
    try:
        new = name + "_rn"
        pat = re.compile(r"(?<![A-Za-z0-9_])%s(?![A-Za-z0-9_])" % re.escape(name))
        for dp, dn, fn in os.walk(root + "/src"):
            for f in fn:
                if f.endswith(".py"):
                    p = os.path.join(dp, f)
                    s = open(p).read()
                    s2 = pat.sub(new, s)
                    if s2 != s:
                        open(p, "w").write(s2)
                        compile(s2, p, "exec")
        res = {}
        for pid in PIDS:
            code, out = harness.run_check(pid, root, os.path.join(root, "ev"))
            if code != 0:
                res[pid] = (code, [l.strip()[:200] for l in out.splitlines() if l.strip().startswith(("violated", "ANALYSIS-ERROR"))][:2])
        return name, res
    finally:
        shutil.rmtree(root, ignore_errors=True)

try:
    with ThreadPoolExecutor(max_workers=8) as ex:
        for name, res in ex.map(one, sorted(names)):
            if res:
                print(name, {k: v[0] for k, v in res.items()})
                for k, v in res.items():
                    for l in v[1][:1]:
                        print("      ", k, l)
            else:
                print(name, "ok")
finally:
    shutil.rmtree(base, ignore_errors=True)
