#!/usr/bin/env python3
"""development: re-verify every kept breaking seed against the current /repo: its demonstration must pass on the clean
tree and fail with the patch applied (run after a `fix:` commit moved the base)."""
import json, os, shutil, subprocess, sys, tempfile
from concurrent.futures import ThreadPoolExecutor

HERE = os.path.dirname(os.path.dirname(os.path.abspath(__file__)))
repo = "/repo"
base = tempfile.mkdtemp(prefix="seed-demos-")
only = set(sys.argv[1:])


def run_demo(root, demo):
    env = dict(os.environ, PYTHONPATH=root + "/src", PYTHONDONTWRITEBYTECODE="1")
    r = subprocess.run(["/venv/bin/python", "-m", "pytest", "-q", "-x", "-p", "no:cacheprovider", "--timeout=120", demo], cwd=root, env=env, capture_output=True, text=True, timeout=600)
    return r.returncode == 0


def one(name):
    d = os.path.join(HERE, "seeded", name)
    demo = os.path.join(d, "demo_test.py")
    if not os.path.exists(demo):
        return name, None
    meta = json.load(open(os.path.join(d, "meta.json"))) if os.path.exists(os.path.join(d, "meta.json")) else {}
    root = tempfile.mkdtemp(prefix="s", dir=base)
    try:
        shutil.copytree(repo + "/src", root + "/src", ignore=shutil.ignore_patterns("__pycache__", "*.egg-info"))
        shutil.copytree(repo + "/cobald_tests", root + "/cobald_tests", ignore=shutil.ignore_patterns("__pycache__"))
        for f in ("pytest.ini", "setup.py"):
            shutil.copy(os.path.join(repo, f), root)
        clean = run_demo(root, demo)
        r = subprocess.run(["git", "apply", "--whitespace=nowarn", os.path.join(d, "patch.diff")], cwd=root, capture_output=True, text=True)
        if r.returncode != 0:
            return name, "patch does not apply"
        patched = run_demo(root, demo)
        verdict = "ok" if clean and not patched else "clean=%s patched=%s%s" % ("pass" if clean else "FAIL", "PASS" if patched else "fail", " (superseded)" if meta.get("superseded") else "")
        return name, verdict
    finally:
        shutil.rmtree(root, ignore_errors=True)


names = sorted(n for n in os.listdir(os.path.join(HERE, "seeded")) if n[0] == "C" and not n.split("-")[1].startswith("N") and (not only or n in only))
try:
    with ThreadPoolExecutor(max_workers=12) as ex:
        for name, v in ex.map(one, names):
            if v != "ok":
                print(name, v)
finally:
    shutil.rmtree(base, ignore_errors=True)
print("checked %d seeds" % len(names))
