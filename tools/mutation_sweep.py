#!/usr/bin/env python3
"""
development: systematic single-edit mutants of src/cobald (operators below); for each mutant that still passes the
repository's test suite, run all 19 checks.  Survivors that no check reports are candidates for review: either the
edit is irrelevant to every property / equivalent, or an obligation is missing.
"""
import ast, copy, json, os, shutil, subprocess, sys, tempfile
from concurrent.futures import ThreadPoolExecutor
HERE = os.path.dirname(os.path.dirname(os.path.abspath(__file__)))
sys.path.insert(0, HERE)
from selftest import harness
repo = "/repo"
only_files = [a for a in sys.argv[1:] if not a.startswith("--")]
CMP = {ast.Lt: [ast.LtE, ast.Gt], ast.LtE: [ast.Lt, ast.GtE], ast.Gt: [ast.GtE, ast.Lt], ast.GtE: [ast.Gt, ast.LtE], ast.Eq: [ast.NotEq], ast.NotEq: [ast.Eq], ast.Is: [ast.IsNot], ast.IsNot: [ast.Is], ast.In: [ast.NotIn], ast.NotIn: [ast.In]}
files = []
for dp, dn, fn in os.walk(repo + "/src"):
    for f in fn:
        if f.endswith(".py"):
            p = os.path.join(dp, f)
            if not only_files or any(o in p for o in only_files):
                files.append(p)
variants = []
def add(label, rel, tree):
    ast.fix_missing_locations(tree)
    try:
        new = ast.unparse(tree)
        compile(new, rel, "exec")
    except Exception:
        return
    variants.append((label, rel, new))
for path in sorted(files):
    rel = os.path.relpath(path, repo)
    src = open(path).read()
    tree = ast.parse(src)
    nodes = list(ast.walk(tree))
    # skip module docstrings / __main__ demo blocks
    for i, n in enumerate(nodes):
        def mut():
            t2 = copy.deepcopy(tree)
            return t2, list(ast.walk(t2))[i]
        ln = getattr(n, "lineno", 0)
        if isinstance(n, ast.Compare) and len(n.ops) == 1 and type(n.ops[0]) in CMP:
            for new_op in CMP[type(n.ops[0])]:
                t2, m = mut(); m.ops = [new_op()]
                add("cmp %s:%d `%s` -> %s" % (rel, ln, ast.unparse(n), new_op.__name__), rel, t2)
        if isinstance(n, (ast.If, ast.While)) and not (isinstance(n.test, ast.Constant)):
            t2, m = mut(); m.test = ast.UnaryOp(op=ast.Not(), operand=m.test)
            add("negate %s:%d `%s`" % (rel, ln, ast.unparse(n.test)), rel, t2)
        if isinstance(n, ast.BoolOp):
            t2, m = mut(); m.op = ast.Or() if isinstance(n.op, ast.And) else ast.And()
            add("boolop %s:%d `%s`" % (rel, ln, ast.unparse(n)), rel, t2)
        if isinstance(n, ast.Constant) and isinstance(n.value, bool):
            t2, m = mut(); m.value = not n.value
            add("const %s:%d %r" % (rel, ln, n.value), rel, t2)
        if isinstance(n, ast.Constant) and type(n.value) in (int, float) and n.value in (0, 1, -1, 0.0, 1.0, 0.1):
            t2, m = mut(); m.value = n.value + 1
            add("const %s:%d %r+1" % (rel, ln, n.value), rel, t2)
        if isinstance(n, ast.Return) and n.value is not None and not (isinstance(n.value, ast.Constant) and n.value.value is None):
            t2, m = mut(); m.value = ast.Constant(value=None)
            add("return-none %s:%d `%s`" % (rel, ln, ast.unparse(n)), rel, t2)
        if isinstance(n, ast.Call) and len(n.args) >= 2 and not any(isinstance(a, ast.Starred) for a in n.args[:2]):
            t2, m = mut(); m.args[0], m.args[1] = m.args[1], m.args[0]
            add("swap-args %s:%d `%s`" % (rel, ln, ast.unparse(n)[:60]), rel, t2)
        if isinstance(n, ast.BinOp) and type(n.op) in (ast.Add, ast.Sub, ast.Mult, ast.Div, ast.FloorDiv) and not isinstance(n.left, ast.Constant):
            rep = {ast.Add: ast.Sub, ast.Sub: ast.Add, ast.Mult: ast.Div, ast.Div: ast.Mult, ast.FloorDiv: ast.Div}[type(n.op)]
            t2, m = mut(); m.op = rep()
            add("binop %s:%d `%s`" % (rel, ln, ast.unparse(n)[:60]), rel, t2)
    # statement deletion: walk bodies
    for i, n in enumerate(nodes):
        for fld in ("body", "orelse", "finalbody"):
            seq = getattr(n, fld, None)
            if not isinstance(seq, list) or isinstance(n, ast.Module):
                continue
            for j, st in enumerate(seq):
                if isinstance(st, (ast.Expr, ast.Assign, ast.AugAssign, ast.Raise, ast.Return, ast.Break, ast.Continue)) and not (isinstance(st, ast.Expr) and isinstance(st.value, ast.Constant)):
                    t2 = copy.deepcopy(tree)
                    m = list(ast.walk(t2))[i]
                    getattr(m, fld)[j] = ast.Pass()
                    add("delete %s:%d `%s`" % (rel, st.lineno, ast.unparse(st)[:70]), rel, t2)
print("%d mutants" % len(variants), flush=True)
base = tempfile.mkdtemp(prefix="mutation-sweep-")
PIDS = ["C%02d" % i for i in range(1, 20)]

PREV = {}
if "--reuse" in sys.argv and os.path.exists("/tmp/mutation_sweep.json"):
    PREV = {r["label"]: r for r in json.load(open("/tmp/mutation_sweep.json"))}


def one(v):
    label, rel, new = v
    if label in PREV and not PREV[label]["tests_pass"]:
        return label, rel, False, {}
    root = tempfile.mkdtemp(prefix="m", dir=base)
    try:
        shutil.copytree(repo + "/src", root + "/src", ignore=shutil.ignore_patterns("__pycache__", "*.egg-info"))
        shutil.copytree(repo + "/cobald_tests", root + "/cobald_tests", ignore=shutil.ignore_patterns("__pycache__"))
        shutil.copy(repo + "/pytest.ini", root)
        shutil.copy(repo + "/setup.py", root)
        open(os.path.join(root, rel), "w").write(new)
        env = dict(os.environ, PYTHONPATH=root + "/src", PYTHONDONTWRITEBYTECODE="1")
        try:
            if label in PREV:
                raise StopIteration
            r = subprocess.run(["/venv/bin/python", "-m", "pytest", "-q", "-x", "-p", "no:cacheprovider", "--timeout=60"], cwd=root, env=env, capture_output=True, text=True, timeout=400)
            passed = r.returncode == 0
        except subprocess.TimeoutExpired:
            passed = False
        except StopIteration:
            passed = True
        if not passed:
            return label, rel, False, {}
        res = {}
        for pid in PIDS:
            code, out = harness.run_check(pid, root, os.path.join(root, "ev"))
            if code != 0:
                res[pid] = code
        return label, rel, True, res
    finally:
        shutil.rmtree(root, ignore_errors=True)

results = []
try:
    with ThreadPoolExecutor(max_workers=14) as ex:
        for k, (label, rel, passed, res) in enumerate(ex.map(one, variants)):
            results.append({"label": label, "file": rel, "tests_pass": passed, "checks": res})
            if k % 100 == 0:
                print("...", k, flush=True)
finally:
    shutil.rmtree(base, ignore_errors=True)
json.dump(results, open("/tmp/mutation_sweep.json", "w"), indent=0)
surv = [r for r in results if r["tests_pass"]]
det = [r for r in surv if 1 in r["checks"].values()]
und = [r for r in surv if r["checks"] and 1 not in r["checks"].values()]
print("mutants %d, pass the test suite %d, of those: reported by a check %d, only undecided %d, unreported %d" % (len(results), len(surv), len(det), len(und), len(surv) - len(det) - len(und)))
