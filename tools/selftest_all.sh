#!/bin/sh
# development: run the self-test (catalogue + seeded changes) of every property and print one line each
cd "$(dirname "$0")/.."
for i in $(seq -w 1 19); do
  /venv/bin/python selftest/harness.py C$i > /tmp/st_C$i.json 2>&1
  /venv/bin/python - <<EOF
import json
try:
    d=json.load(open('/tmp/st_C$i.json'))
    print('C$i mutants %d detected %d | neutral %d silent %d | missed %s | undecided %s | noisy %s | skipped %s'%(d['mutants'],d['detected'],d['neutral'],d['silent'],d['missed'],d['undecided_on_mutant'],[x['id']+':'+str(x['exit']) for x in d['noisy']],d['skipped']))
except Exception as e:
    print('C$i ERROR',e, open('/tmp/st_C$i.json').read()[-800:])
EOF
done
