#!/usr/bin/env python3
"""development: apply every kept behaviour-preserving seed (N*) and run ALL 19 checks on it -- shared rules must stay
silent on a refactoring that was produced for another property.  Prints the (seed, property) pairs that are not exit 0."""
import json, os, shutil, sys, tempfile
from concurrent.futures import ThreadPoolExecutor

HERE = os.path.dirname(os.path.dirname(os.path.abspath(__file__)))
sys.path.insert(0, HERE)
from selftest import harness

repo = "/repo"
base = tempfile.mkdtemp(prefix="neutral-all-")
PIDS = ["C%02d" % i for i in range(1, 20)]
only = set(sys.argv[1:])


def one(name):
    d = os.path.join(HERE, "seeded", name)
    root = harness.make_scratch(repo, base)
    try:
        if not harness.apply_patch(root, os.path.join(d, "patch.diff")):
            return name, {"apply": "failed"}
        res = {}
        mp = os.path.join(d, "meta.json")
        meta = json.load(open(mp)) if os.path.exists(mp) else {}
        # a breaking change that a later repair made harmless FOR ITS OWN PROPERTY is not a refactoring: it is only
        # required to be silent there (it may well change what another property talks about)
        pids = [name.split("-")[0]] if meta.get("superseded") else PIDS
        for pid in pids:
            code, out = harness.run_check(pid, root, os.path.join(root, "ev"))
            if code != 0:
                res[pid] = (code, [l.strip()[:230] for l in out.splitlines() if l.strip().startswith(("violated", "ANALYSIS-ERROR"))][:2])
        return name, res
    finally:
        shutil.rmtree(root, ignore_errors=True)


names = []
for n in sorted(os.listdir(os.path.join(HERE, "seeded"))):
    if n[0] != "C" or (only and n not in only):
        continue
    mp = os.path.join(HERE, "seeded", n, "meta.json")
    meta = json.load(open(mp)) if os.path.exists(mp) else {}
    if meta.get("stale_after"):
        continue
    if n.split("-")[1].startswith("N") or meta.get("kind_override") == "neutral":
        names.append(n)
bad = 0
try:
    with ThreadPoolExecutor(max_workers=12) as ex:
        for name, res in ex.map(one, names):
            for pid, v in sorted(res.items()):
                bad += 1
                print(name, pid, v if isinstance(v, str) else v[0])
                if not isinstance(v, str):
                    for l in v[1][:1]:
                        print("      ", l)
finally:
    shutil.rmtree(base, ignore_errors=True)
print("%d refactorings x %d checks: %d non-silent" % (len(names), len(PIDS), bad))
