#!/usr/bin/env python3
"""
tools/confirm_seed.py <PID> <X> [--keep]   confirm a seeded change produced by a sub-agent and run the check on it

1. clean worktree: demo passes        2. with the patch: suite passes (85), demo fails
3. run ./check <PID> against the patched worktree (evidence redirected)       4. restore the worktree
With --keep the change is copied to /verif/seeded/<PID>-<X>/ with a meta.json recording what was run.
"""
import json, os, re, shutil, subprocess, sys, tempfile

HERE = os.path.dirname(os.path.dirname(os.path.abspath(__file__)))
pid, x = sys.argv[1], sys.argv[2]
keep = "--keep" in sys.argv
base = "/tmp/seed/%s" % pid
wt = base + "/wt"
out = "%s/out/%s" % (base, x)
env = dict(os.environ, PYTHONPATH=wt + "/src")
PY = "/venv/bin/python"


def sh(cmd, **kw):
    return subprocess.run(cmd, capture_output=True, text=True, **kw)


def clean():
    sh(["git", "-C", wt, "checkout", "--", "."])
    sh(["git", "-C", wt, "clean", "-fdq"])


def pytest(args):
    r = sh([PY, "-m", "pytest", "-q", "-p", "no:cacheprovider", "--timeout=900"] + args, cwd=wt, env=env)
    tail = [l for l in r.stdout.strip().splitlines() if l.strip()][-1:] or [""]
    return r.returncode, tail[0]


ran = []
clean()
rc, tail = pytest([out + "/demo_test.py"])
ran.append("clean tree: demo -> rc %d (%s)" % (rc, tail))
ok = rc == 0
r = sh(["git", "-C", wt, "apply", out + "/patch.diff"])
if r.returncode != 0:
    print("PATCH DOES NOT APPLY", r.stderr); sys.exit(2)
try:
    rc, tail = pytest([])
    ran.append("patched: full suite -> rc %d (%s)" % (rc, tail))
    ok &= rc == 0 and "85 passed" in tail
    rc, tail = pytest([out + "/demo_test.py"])
    ran.append("patched: demo -> rc %d (%s)" % (rc, tail))
    ok &= rc != 0
    ev = tempfile.mkdtemp(prefix="seed-ev-")
    results = {}
    pids = [pid] + [a for a in sys.argv[3:] if re.match(r"C\d\d$", a)]
    for q in pids:
        r = sh([PY, "-B", HERE + "/sa/main.py", q, "--repo", wt], env=dict(os.environ, VERIF_EVIDENCE_DIR=ev, VERIF_NO_SELFTEST="1"))
        rules = sorted({ln.split("violated ", 1)[1].split(" ")[0] for ln in r.stdout.splitlines() if ln.strip().startswith("violated ")})
        results[q] = (r.returncode, rules)
        ran.append("patched: ./check %s --repo <worktree> -> exit %d %s" % (q, r.returncode, rules))
        if r.returncode != 0:
            for ln in r.stdout.splitlines():
                if ln.strip().startswith(("violated", "ANALYSIS-ERROR")):
                    print("   ", ln.strip()[:400])
    shutil.rmtree(ev, ignore_errors=True)
finally:
    clean()
print("\n".join(ran))
print("CONFIRMED" if ok else "NOT CONFIRMED", pid, x, "check:", results.get(pid))
if keep and ok:
    dst = "%s/seeded/%s-%s" % (HERE, pid, x)
    os.makedirs(dst, exist_ok=True)
    shutil.copy(out + "/patch.diff", dst)
    shutil.copy(out + "/demo_test.py", dst)
    try:
        meta = json.load(open(out + "/meta.json"))
    except Exception:
        meta = {}
    meta = {
        "id": "%s-%s" % (pid, x),
        "property": pid,
        "summary": meta.get("summary"),
        "needs_to_manifest": meta.get("needs_to_manifest"),
        "files": meta.get("files"),
        "origin": "independent sub-agent given only the property text and a scratch worktree",
        "confirmed_by_me": ran,
        "detected_by": {q: {"exit": c, "rules": r} for q, (c, r) in results.items()},
    }
    json.dump(meta, open(dst + "/meta.json", "w"), indent=1)
    print("kept ->", dst)
