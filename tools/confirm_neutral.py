#!/usr/bin/env python3
"""
tools/confirm_neutral.py <PID> <N> [--keep]   behaviour-preserving refactoring from a sub-agent:
suite passes, the A/B/C/D demonstrations still pass, and ./check <PID> must stay silent (exit 0).
"""
import json, os, shutil, subprocess, sys, tempfile, glob

HERE = os.path.dirname(os.path.dirname(os.path.abspath(__file__)))
pid, x = sys.argv[1], sys.argv[2]
keep = "--keep" in sys.argv
base = "/tmp/seed/%s" % pid
wt = base + "/wt"
out = "%s/out/%s" % (base, x)
env = dict(os.environ, PYTHONPATH=wt + "/src")
PY = "/venv/bin/python"


def sh(cmd, **kw):
    return subprocess.run(cmd, capture_output=True, text=True, **kw)


def clean():
    sh(["git", "-C", wt, "checkout", "--", "."])
    sh(["git", "-C", wt, "clean", "-fdq"])


def pytest(args):
    r = sh([PY, "-m", "pytest", "-q", "-p", "no:cacheprovider", "--timeout=900"] + args, cwd=wt, env=env)
    tail = [l for l in r.stdout.strip().splitlines() if l.strip()][-1:] or [""]
    return r.returncode, tail[0]


ran = []
clean()
r = sh(["git", "-C", wt, "apply", out + "/patch.diff"])
if r.returncode != 0:
    print("PATCH DOES NOT APPLY", r.stderr); sys.exit(2)
ok = True
try:
    rc, tail = pytest([])
    ran.append("refactored: full suite -> rc %d (%s)" % (rc, tail))
    ok &= rc == 0 and "85 passed" in tail
    for d in sorted(glob.glob(base + "/out/[A-M]/demo_test.py")):
        rc, tail = pytest([d])
        ran.append("refactored: %s -> rc %d (%s)" % (d.split("/out/")[1], rc, tail))
        ok &= rc == 0
    ev = tempfile.mkdtemp(prefix="seed-ev-")
    r = sh([PY, "-B", HERE + "/sa/main.py", pid, "--repo", wt], env=dict(os.environ, VERIF_EVIDENCE_DIR=ev, VERIF_NO_SELFTEST="1"))
    code = r.returncode
    ran.append("refactored: ./check %s --repo <worktree> -> exit %d" % (pid, code))
    if code != 0:
        for ln in r.stdout.splitlines():
            if ln.strip().startswith(("violated", "ANALYSIS-ERROR")):
                print("   ", ln.strip()[:500])
    shutil.rmtree(ev, ignore_errors=True)
finally:
    clean()
print("\n".join(ran))
print("NEUTRAL-OK" if ok else "NOT BEHAVIOUR-PRESERVING?", pid, x, "check exit:", code, {0: "silent", 1: "FALSE ALARM", 2: "undecided"}.get(code))
if keep and ok:
    dst = "%s/seeded/%s-%s" % (HERE, pid, x)
    os.makedirs(dst, exist_ok=True)
    shutil.copy(out + "/patch.diff", dst)
    try:
        meta = json.load(open(out + "/meta.json"))
    except Exception:
        meta = {}
    meta = {"id": "%s-%s" % (pid, x), "property": pid, "kind": "behaviour-preserving refactoring (must stay silent)", "summary": meta.get("summary"), "why_behaviour_preserving": meta.get("why_behaviour_preserving"), "files": meta.get("files"),
            "origin": "independent sub-agent given only the property text and a scratch worktree", "confirmed_by_me": ran, "check_exit": code}
    json.dump(meta, open(dst + "/meta.json", "w"), indent=1)
    print("kept ->", dst)
