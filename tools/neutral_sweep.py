#!/usr/bin/env python3
"""
development: generated behaviour-preserving variants, one AST edit each, against every check:
  flip     a <op> b  ->  b <flipped op> a        (single-operator comparisons)
  invert   if c: A else: B  ->  if not c: B else: A   (statements with an else branch, no elif chain)
  local    consistent rename of one local variable inside one function
Prints every variant for which some check leaves exit 0.
"""
import ast, copy, os, shutil, sys, tempfile
from concurrent.futures import ThreadPoolExecutor
HERE = os.path.dirname(os.path.dirname(os.path.abspath(__file__)))
sys.path.insert(0, HERE)
from selftest import harness
repo = "/repo"
kinds = sys.argv[1:] or ["flip", "invert", "local"]
FLIP = {ast.Lt: ast.Gt, ast.Gt: ast.Lt, ast.LtE: ast.GtE, ast.GtE: ast.LtE, ast.Eq: ast.Eq, ast.NotEq: ast.NotEq}
files = []
for dp, dn, fn in os.walk(repo + "/src"):
    for f in fn:
        if f.endswith(".py"):
            files.append(os.path.join(dp, f))
variants = []  # (label, relpath, new source)
for path in sorted(files):
    rel = os.path.relpath(path, repo)
    src = open(path).read()
    tree = ast.parse(src)
    nodes = list(ast.walk(tree))
    if "flip" in kinds:
        for i, n in enumerate(nodes):
            if isinstance(n, ast.Compare) and len(n.ops) == 1 and type(n.ops[0]) in FLIP:
                t2 = copy.deepcopy(tree)
                m = list(ast.walk(t2))[i]
                m.left, m.comparators = m.comparators[0], [m.left]
                m.ops = [FLIP[type(m.ops[0])]()]
                variants.append(("flip %s:%d %s" % (rel, n.lineno, ast.unparse(n)), rel, ast.unparse(t2)))
    if "invert" in kinds:
        for i, n in enumerate(nodes):
            if isinstance(n, ast.If) and n.orelse and not (len(n.orelse) == 1 and isinstance(n.orelse[0], ast.If)):
                t2 = copy.deepcopy(tree)
                m = list(ast.walk(t2))[i]
                m.test = ast.UnaryOp(op=ast.Not(), operand=m.test)
                m.body, m.orelse = m.orelse, m.body
                ast.fix_missing_locations(t2)
                variants.append(("invert %s:%d if %s" % (rel, n.lineno, ast.unparse(n.test)), rel, ast.unparse(t2)))
    if "local" in kinds:
        for i, n in enumerate(nodes):
            if isinstance(n, (ast.FunctionDef, ast.AsyncFunctionDef)):
                params = {a.arg for a in n.args.posonlyargs + n.args.args + n.args.kwonlyargs} | ({n.args.vararg.arg} if n.args.vararg else set()) | ({n.args.kwarg.arg} if n.args.kwarg else set())
                locs = set()
                for x in ast.walk(n):
                    if isinstance(x, ast.Name) and isinstance(x.ctx, ast.Store):
                        locs.add(x.id)
                    if isinstance(x, ast.ExceptHandler) and x.name:
                        locs.add(x.name)
                for nm in sorted(locs - params):
                    if nm.startswith("__"):
                        continue
                    t2 = copy.deepcopy(tree)
                    m = list(ast.walk(t2))[i]
                    if any(isinstance(x, (ast.Global, ast.Nonlocal)) for x in ast.walk(m)):
                        continue
                    for x in ast.walk(m):
                        if isinstance(x, ast.Name) and x.id == nm:
                            x.id = nm + "_v"
                        if isinstance(x, ast.ExceptHandler) and x.name == nm:
                            x.name = nm + "_v"
                        if isinstance(x, (ast.FunctionDef, ast.AsyncFunctionDef)) and x is not m and x.name == nm:
                            x.name = nm + "_v"
                    variants.append(("local %s:%d %s.%s" % (rel, n.lineno, n.name, nm), rel, ast.unparse(t2)))
print("%d variants" % len(variants))
base = tempfile.mkdtemp(prefix="neutral-sweep-")
PIDS = ["C%02d" % i for i in range(1, 20)]

def one(v):
    label, rel, new = v
    root = harness.make_scratch(repo, base)
    try:
        try:
            compile(new, rel, "exec")
        except SyntaxError:
            return label, {"compile": 9}
        open(os.path.join(root, rel), "w").write(new)
        res = {}
        for pid in PIDS:
            code, out = harness.run_check(pid, root, os.path.join(root, "ev"))
            if code != 0:
                res[pid] = (code, [l.strip()[:220] for l in out.splitlines() if l.strip().startswith(("violated", "ANALYSIS-ERROR"))][:1])
        return label, res
    finally:
        shutil.rmtree(root, ignore_errors=True)

bad = 0
try:
    with ThreadPoolExecutor(max_workers=14) as ex:
        for label, res in ex.map(one, variants):
            if res:
                bad += 1
                print(label, {k: (v[0] if isinstance(v, tuple) else v) for k, v in res.items()})
                for k, v in res.items():
                    if isinstance(v, tuple):
                        for l in v[1]:
                            print("      ", k, l)
finally:
    shutil.rmtree(base, ignore_errors=True)
print("variants with a non-silent check: %d of %d" % (bad, len(variants)))
