#!/bin/bash
# tools/cross.sh <seed-dir-name> <PID>...   apply a kept seed to /repo, run the given checks, undo
s=$1; shift
git -C /repo apply /verif/seeded/$s/patch.diff || exit 3
for p in "$@"; do /verif/check $p 2>&1 | grep -E "violated|undecided|ANALYSIS|Traceback|Error" | cut -c1-${W:-420}; done
git -C /repo checkout -- .
